#!/bin/sh
# usage: tools_seed_regress.sh [id-glob]   re-runs, for every seeded change, the quick check(s) listed in its meta.json as catching
# it (scratch copy of /repo/src + patch); prints one line per change: caught / MISSED / patch does not apply any more
cd "$(dirname "$0")"
for d in seeded/${1:-C*}/; do
  id=$(basename $d)
  [ -f $d/meta.json ] || continue
  own=$(/venv/bin/python -c "import json,sys; m=json.load(open('$d/meta.json')); c=m['caught_by']; p=m['property']; print(p if p in c else (c[0] if c else '-'))")
  /venv/bin/python -c "import json,sys; sys.exit(0 if json.load(open('$d/meta.json')).get('neutralised_by_later_fix') else 1)" && { echo "$id - made harmless by a later fix in /repo (see meta.json)"; continue; }
  [ "$own" = "-" ] && { echo "$id - kept although no check reports it (reasons in meta.json)"; continue; }
  out=$(./tools_seed_eval.sh $PWD/$d/patch.diff $own 2>&1)
  ap=$(/venv/bin/python -c "import json; print(json.load(open('$d/meta.json')).get('applies_to'))")
  if echo "$out" | grep -q "patch does not apply"; then echo "$id $own NOAPPLY (applies to /repo commit $ap)";
  elif echo "$out" | grep -q "^VIOLATION"; then echo "$id $own caught";
  else echo "$id $own MISSED: $(echo "$out" | tail -1 | cut -c1-160)"; fi
done
