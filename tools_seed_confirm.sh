#!/bin/sh
# usage: tools_seed_confirm.sh <agent-worktree> <seed-id> <demo-file-name>
# Confirms a seeded change independently: applies <worktree>/mutant.diff to a fresh scratch worktree of /repo HEAD, runs the
# repository's full suite with it, runs the demonstration with and without it. Writes /verif/seeded/<seed-id>/confirm.log.
wt=$1; id=$2; demo=$3
V=/tmp/val/$id
out=/verif/seeded/$id
mkdir -p $out /tmp/val
git -C /repo worktree remove --force $V 2>/dev/null
git -C /repo worktree add -q --detach $V HEAD || exit 3
cp $wt/mutant.diff $out/patch.diff
cp $wt/$demo $out/ 2>/dev/null
[ -f $wt/NOTES.md ] && cp $wt/NOTES.md $out/agent_notes.md
{
echo "== $(date -u) confirm $id against /repo $(git -C /repo rev-parse --short HEAD)"
cd $V
echo "-- demo WITHOUT the change"
PYTHONPATH=$V/src timeout 600 /venv/bin/python -m pytest -q -p no:cacheprovider --no-cov -x $out/$demo > /tmp/val/$id.demo0 2>&1; d0=$?
if grep -q "no tests ran\|collected 0 items" /tmp/val/$id.demo0; then PYTHONPATH=$V/src timeout 600 /venv/bin/python $out/$demo > /tmp/val/$id.demo0 2>&1; d0=$?; fi
tail -3 /tmp/val/$id.demo0; echo "exit=$d0"
git apply $out/patch.diff || { echo "PATCH DOES NOT APPLY"; exit 3; }
echo "-- demo WITH the change"
PYTHONPATH=$V/src timeout 600 /venv/bin/python -m pytest -q -p no:cacheprovider --no-cov -x $out/$demo > /tmp/val/$id.demo1 2>&1; d1=$?
if grep -q "no tests ran\|collected 0 items" /tmp/val/$id.demo1; then PYTHONPATH=$V/src timeout 600 /venv/bin/python $out/$demo > /tmp/val/$id.demo1 2>&1; d1=$?; fi
tail -3 /tmp/val/$id.demo1; echo "exit=$d1"
echo "-- repository test suite WITH the change"
# private network namespace with a veth pair and default routes: the full suite passes there (295 passed) and parallel
# confirmations cannot hear each other's multicast traffic
unshare -n sh -c "ip link set lo up; ip link add v0 type veth peer name v1 && ip addr add 10.9.9.1/24 dev v0 && ip -6 addr add fd99::1/64 dev v0 nodad; ip link set v0 up; ip link set v1 up; ip route add default dev v0; ip -6 route add default dev v0; sleep 3; cd $V; PYTHONPATH=$V/src timeout 1500 /venv/bin/python -m pytest -q -p no:cacheprovider --no-cov --timeout=900 -rf tests 2>&1" | grep -E "^(FAILED|ERROR)|passed|failed" | tail -8
echo "== summary: demo_without_exit=$d0 demo_with_exit=$d1"
} > $out/confirm.log 2>&1
cd /; git -C /repo worktree remove --force $V
rm -f /tmp/val/$id.demo0 /tmp/val/$id.demo1
tail -4 $out/confirm.log
