#!/venv/bin/python
"""Regenerates MANIFEST.json from the table below (keeps it valid and in one place)."""
import json, os, importlib, sys
sys.path.insert(0, os.path.dirname(os.path.abspath(__file__)))
os.environ.setdefault("PYTHONHASHSEED", "0")

CHECKS = {
 # id: (design_ref, level text, level note)
 "C05": ("3/C05", "All histories of response datagrams and clock steps up to the reported depth over the reported alphabet are executed on the real record manager and cache (live instance, real purge timer); after every event all lookup paths are compared with an independent RFC 6762 s.10 model. Exhaustive within alphabet and depth.",
         "Trusted: the virtual loop/clock seam, the s.10 reference model, the wire encoder of /verif. Values outside the alphabet are covered by the region argument (DESIGN 1), not by execution."),
}
CHECKS.update({
 "C01": ("3/C01", "Every message of the reported bounded spaces (all sequences of <= k placed entries over a name/record alphabet forcing every compression shape, all modes, rollback byte-position sweeps, section sizes to 300) is built by the real encoder and decoded by the library and by an independent strict RFC 1035 decoder; exhaustive within those spaces.",
         "Trusted: /verif/mc/wire.py (independent decoder). Inputs outside the alphabets are not executed. One open known finding (a name over 255 octets is emitted) is reported as KNOWN-FINDING."),
 "C02": ("3/C02", "Every datagram of the reported spaces (all bodies over an 11-byte adversarial alphabet to length 5-7 under 30 headers, structurally enumerated records, all compression graphs on <= 4-5 names, chain/stack/length families, all single edits of 15 seed messages) is decoded by the real decoder under a profile-event budget and compared with a strict parser where that accepts.",
         "Trusted: the strict parser (it only shrinks the agreement set), the call budget constants. Random byte strings are not sampled."),
 "C06": ("3/C06", "Same exhaustive history space as C05, x 5 listener configurations; per-datagram listener contract checked with cache snapshots taken inside the callbacks against the s.10 model.",
         "Trusted: the s.10 reference model; the acting listener acts during the last datagram of each history (every prefix is itself explored)."),
 "C14": ("3/C14", "The C01 message spaces; every emitted datagram sequence is checked for the 8966/1460 limits, exact header counts (strict decoder consumes the datagram exactly), exactly-once placement per section, and TC-on-all-but-last for queries only.",
         "Trusted: /verif/mc/wire.py. Entries that do not fit a datagram alone are outside the quantifier: they are generated too (up to 40 bytes beyond, 9500, 20000, 65536) but judged only for 'no datagram over 8966 bytes, every datagram well-formed'."),
 "C19": ("3/C19", "Full product of a rule-violation grammar for names in both strict modes plus all strings of length <= 5-7 over a 5-character alphabet before 4 suffixes and every non-ASCII code point (quick: of the BMP) inside three service labels, against an independent three-valued validator; all small property dictionaries against an independent RFC 6763 s.6 parser.",
         "Trusted: /verif/mc/models/name_model.py (UNSPECIFIED where the documented rules do not decide)."),
 "C20": ("3/C20", "All ordered pairs over a vocabulary of ~3000 record/question objects varying one identity field at a time (names incl. pairs that only full case folding would merge); ==, !=, hash, set/dict, DNSRRSet and DNSCache lookups (by record and by name) against an identity-tuple model.",
         "Trusted: the identity model as read from the property statement."),
})
CHECKS.update({
 "C03": ("3/C03", "All register/update/unregister histories to the reported depth on a real instance, de-duplicated by canonical registry state (incl. empty buckets and memo slots; updates in place, through a new object, moving the instance between (sub)types; retired objects registered again); in every new state the full query alphabet (single questions x 8 types over registered/re-cased/unregistered names, question pairs, known-answer lists at TTL half-1/half/half+1/full) is answered by the real decoder + QueryHandler and compared with a reference responder; a front-door pass delivers queries through the listener's datagram path as well.",
         "Trusted: /verif/mc/models/responder_model.py. ANY on host names and NSEC known answers are outside the completeness claim (not generated)."),
 "C04": ("3/C04", "All histories of response datagrams, clock steps (1 ms .. 3 h) and browser start/cancel to the reported depth on a live instance with AsyncServiceBrowser, de-duplicated by canonical state (datagrams incl. changed records before a goodbye and the same pointer withdrawn and asserted in one datagram); alternation automaton per (type, instance), live set == cached pointer set at every quiescent point, cache content observed from inside add_service.",
         "Trusted: virtual loop/clock; histories respect the restrictions of the quantifier (exact owner names, no case twins in one datagram, no browser start over expired-unpurged pointers)."),
})
CHECKS.update({
 "C08": ("3/C08", "Full product grid (10 query kinds x arrival offsets 1..1199 ms before the withdrawal x jitter x 5 registry shapes incl. capitalised names x unregister / unregister-all / async close / sync close / sync unregister (+ close) x second query x re-created description object x IPv4/IPv6-only host) executed on a real instance; the withdrawing host's trace must show exactly three complete goodbyes 125 ms apart and no withdrawn record with TTL>0 afterwards for 6 s.",
         "Trusted: virtual loop/link; API calls are sequential (operation model of the statement); answers between the first and third goodbye are not judged."),
 "C10": ("3/C10", "The complete tree of learn/refresh/re-case/withdraw histories (depth 2, thorough 3) x gap menu around 0/1 s/20 s/40 s and 75/85/95/100 % of the TTLs x browser delay 1/10/60 s x forced question types, plus re-announcements whose 75 % instant coincides within a delay with the armed 75/85/95 % query, each run to expiry of every record on a real AsyncServiceBrowser; query-trace oracle for start-up schedule, refresh windows, rate limit, unexplained queries, liveness and armed timer.",
         "Trusted: window tolerances listed in the evidence assumptions (one delay early, accumulated lateness)."),
})
CHECKS.update({
 "C11": ("3/C11", "Full product grid (21 question mixes QU/QM x probe x id x source port x v4/v6 source x 15 ages of the host's last multicast around a quarter of 60/120/300/4500 s TTLs x single / dual / IPv6-only sockets, identical copies of QU queries 200/800 ms earlier) on a real instance; routing and format rules judged per answer record on the decoded trace.",
         "Trusted: virtual link socket model (multicast queries arrive on the listen socket, legacy unicast on the respond socket); equality with ttl/4 accepts both outcomes."),
 "C12": ("3/C12", "Full product per family on a real instance: single queries x all 101 jitter values x sighting ages 999/1000/1001/5000 ms; all 2- and 3-query schedules and a 5-query family (groups emptied by a send at the head of the queue) over the gap grid around 0/20/120/500/1000/1120/1200 ms x jitter per draw; TC trains of 1-4 packets x continuation gaps around 400/500 ms incl. the timer instant x 1/2 sources; per-record timing envelope on the trace.",
         "Trusted: the envelope definitions in the evidence assumptions; one open known finding (duplicate guard hides a sighting) is reported as KNOWN-FINDING."),
})
CHECKS.update({
 "C13": ("3/C13", "Full product per family on real instances: browser start-up queries x caches of 0..300 pointer records in TTL classes at/around half TTL, expired-unpurged and floored x forced types; a second asker (own browser, QU or QM, or question heard as responder alone / among other questions / as a truncated train) at gaps 0/1/500/998/999/1000/1001/5000 ms x known-answer relation x question type; service-info lookups x 27 cache states x 4 timeouts x forced types x jitter; oracle on decoded query datagrams (questions, QU bits, known answers with remaining TTL, TC bits, spacing).",
         "Trusted: the in-check model of which cached records have more than half their TTL left; remaining TTL compared with one second tolerance."),
 "C18": ("3/C18", "Full product grid: 256 cache states (SRV/TXT/A/AAAA in absent/fresh/stale/expired-unpurged) x 3 timeouts x arrival instant of each missing record (never, 50, 250, timeout-1, timeout, timeout+1 ms) x forced type, plus re-used lookup objects, objects that already know the host, and lookups preceded by another lookup of the same instance (question history populated), on a real AsyncServiceInfo.async_request; return time, success iff SRV and an unexpired address were known in time, field provenance (expired copies carry different rdata), query trace.",
         "Trusted: missing records arrive one per datagram; equality with the deadline accepts both results; cache-flush grace second as in C06."),
})
CHECKS.update({
 "C16": ("3/C16", "The complete tree of histories of <= 2 (thorough 3) datagrams over a 16-datagram query/response alphabet x gaps 1/500/1001 ms x three ages of the host's own records x jitter low/high; every history is executed three times in identical worlds (plain / QU-free datagrams doubled / all doubled) and traces and callback logs are compared exactly.",
         "Trusted: constant jitter per triple. One open known finding (duplicated QU queries are processed twice) is reported as KNOWN-FINDING; any other difference is a violation."),
 "C17": ("3/C17", "For three busy scenarios the reference run yields every instant at which a timer or datagram was processed; close is requested at each of them and 1 ms before/after, on a 25 ms grid while registrations are in flight and 0..11 loop iterations after construction, via async_close and via Zeroconf.close from outside the loop, plus the sync API's threaded ServiceBrowser with a callback still running when close is called (real thread, real seconds - the one part outside the virtual scheduler); then a second close, 3 h of virtual time and 9 rounds of fresh traffic. Oracle: goodbyes for everything registered, sockets closed, no datagram, no listener/browser callback, no exception afterwards.",
         "Trusted: caller-thread seam for the sync API; OS threads only in the threaded-browser points. One open known finding (a registration finishing during close is announced and never withdrawn) is reported as KNOWN-FINDING."),
})
CHECKS.update({
 "C07": ("3/C07", "Iterative deviation bounding on 2- and 3-host scenarios of real instances over the simulated link (late and multicast-asking joiners, updates, withdrawal right after a browser starts, IPv6-only and multi-socket hosts): every (datagram, receiver) delivery chooses among 1 ms / 100 ms / duplicate / drop (one drop per execution), every library jitter draw between low and high; all executions with <= 2 (thorough <= 3 on the 2-host scenarios) non-default choices; browser live sets must equal what is registered 15 s after each change and lookups made from add_service must resolve the advertised data.",
         "Trusted: virtual link (fixed 100 us loop-back); API calls sequential per instance; reported deviation bound completed. One open known finding (multi-socket hosts: repeated goodbyes dropped as duplicates after a stale answer) is reported as KNOWN-FINDING."),
 "C09": ("3/C09", "Full product grid: conflicting pointer record at -100..500 ms around the three probe instants (incl. 174/175/176 and 349/350/351) x renaming allowed or not x pre-populated chains of taken '-N' names x second conflict during the renamed cycle x address mix x custom TTLs x description objects used before (records already built, registered and withdrawn) x ttl= argument; the conflict is delivered by a scripted peer or by a second real instance owning the name behind a link with one-way delay 1/50/100/150 ms; probe/announcement schedule and content, exception or final name, no record of the conflicting name ever sent.",
         "Trusted: equality with the last probe check accepts both outcomes; the host answering its own looped-back third probe is tolerated."),
 "C15": ("3/C15", "Adversarial corpora (all single edits of seed messages, compression graphs, chain/stack families, oversize datagrams, every echo-hazard label length 1..63 x 5 fill bytes in legacy-unicast queries, responses whose rdata names cannot be re-encoded) delivered to a busy real instance: fresh world per datagram from 4 source tuples, streams of 50 per world, all ordered pairs of class representatives, and a waiter (lookup / registration) cancelled 0..2 loop iterations before or after a valid datagram; afterwards the loop's exception handler must be empty, a canary query answered and a canary announcement delivered to the browser.",
         "Trusted: exceptions leaving datagram_received are reported to the loop handler like a selector transport does; random byte strings are not sampled."),
})
NOT_YET = {}
# dimensions added after the texts above were written (rounds h-k of the seeded changes); appended to the level text
EXTRA = {
 "C01": " Also: names without labels (the root name as owner, question and rdata name). Text that is not in Unicode normalisation form C has to come back as spelled.",
 "C02": " Also: shared name targets that do NOT decode (label runs and pointer runs re-read by hundreds of records; per-entry work budget), and datagrams of 1000..65507 bytes through the real listener (oversize ones must be dropped unread at any log level). Every execution runs under a watchdog: a decoder that does not terminate is a violation. Two datagrams in flight at once (the first constructed and put aside unread, as the listener does with truncated queries, the second constructed, then both read): all ordered pairs of a set of valid datagrams x three reading orders.",
 "C03": " Also: description objects unregistered, changed and registered again (they and the contents of the record memos are part of the canonical state), descriptions without a host name, ANY questions for the type enumeration name.",
 "C04": " Also: a search with the browsed types (and the pointers' owner names) spelled with capitals. Pointers of a class other than IN; a browser for the other type started while a pointer has run out but is not purged.",
 "C06": " A listener registered during the first round is owed exactly one completion call. Datagrams holding several flush-marked record sets, most of them for names the cache has never seen.",
 "C07": " Also: browsers started over pointers cached for 40 and 65 minutes, updates while an answer waits under the one-second protection (capitals, in-place and new-object updates, port and address changes, a late browser on a third host), re-registration of a changed description object. Also: the browsed type spelled in other letter case than the offering host spells it, a description changed and changed back at once, browsers started right after a cached pointer ran out.",
 "C08": " Also: registries reached by moving the other service between host names, an ordinary and a protected answer pending together, three services on one host name with an update and two withdrawals under a protected answer. Also: the synchronous update_service followed at once by unregister_service, and withdrawals 0..460 ms after an async register/update whose announcement task is not awaited.",
 "C09": " Also: the same name registered twice with capitals, sequentially and while the first registration is still probing; the SRV records announced for the name are compared.",
 "C10": " Also: a companion browser of the same instance asking the shared type in the same instant, and a neighbour's query (the instance offers the browsed type) right before a refresh is due. Also: the event loop stalled across a refresh instant (late wake-ups).",
 "C11": " Also: IPv4-mapped sources on IPv6 sockets, IPv6 sources of another zone than the socket's own (full 4-tuple compared), the IPv6 address of a host that has one, a root-name question in a legacy echo, one question asked twice with different QU bits. Also: a truncated query from port 5353 of the same address pending when a legacy query arrives; probes that share their datagram with an ordinary question and known answers.",
 "C12": " Also: multi-question queries of which the host can answer one, the IPv6 address of a host that has one, an update of another service while the answer waits. Also: truncated trains ended by a probe; a cooperating responder's sighting during the hold while another querier's protected answer already waits.",
 "C13": " Also: a question heard twice, a heard known answer that this instance only holds past half its TTL, lookups repeated on one object. Also: a non-qualifying hearing between two askers, known answers that belong to a second question (other name; same name and other type), questions heard from an ephemeral source port.",
 "C14": " Also: the sender's path - messages go through Zeroconf.async_send of a real instance and the wire trace must equal packets(), incl. datagrams of exactly 8966 bytes. Executions run under a watchdog (a builder that does not terminate is a violation).",
 "C15": " Also: five-query valid traffic schedules before the canary, every echoed 16-bit field (id, type, class, question count) swept over 0..259 and powers of two. Executions run under a watchdog (a decoder spinning inside datagram_received is a violation). Also: announcements spelling the browsed type in other letter case, labels containing the separator, the canary instance's own history (announce, goodbye, both in one datagram) with the browser's last word as oracle, application listeners that register listeners from their callbacks.",
 "C16": " Also: responses that repeat a QU question, responses with the TC bit, a query with a cache-flush known answer, an application callback that raises once.",
 "C17": " Also: EAGAIN on the k-th / all goodbye datagrams (transport write buffer: close() delivers it, abort() drops it), a first close cancelled after k = 0..39 loop iterations and requested again, the loop's thread blocked for 300 / 3000 ms right after close returned, close() again after the event loop itself was closed. Also: the same listener object registered twice through the synchronous API (browser threads and record listeners left after close), services withdrawn shortly before close with the goodbye tasks not awaited.",
 "C18": " Also: names whose lower-cased and case-folded spellings differ, and the convenience entry points Zeroconf.async_get_service_info / AsyncZeroconf.async_get_service_info. Also: a goodbye for exactly the expired copy a pending lookup is waiting to replace; record bundles arriving after the lookup's last query.",
 "C19": " The independent parser tells 'key=' (empty value) from 'key' (no value). Two reader threads on one description that still holds undecoded TXT bytes: every schedule with one preemption (sys.settrace parks reader A before each line it executes in the library while reader B runs to completion).",
 "C20": " Also: the cache-flush rule (a flush-bit record displaces cached records of its name, type and class in any spelling that are not the same record). Questions are also run through the duplicate-question history (asked 500 ms ago iff the same question); TXT rdata of zero length and of a single zero octet are different rdata.",
}
for _k, _v in EXTRA.items():
    _ref, _text, _note = CHECKS[_k]
    CHECKS[_k] = (_ref, _text + _v, _note)

def main():
    props = [json.loads(l) for l in open(os.path.join(os.path.dirname(os.path.abspath(__file__)), "properties.jsonl"))]
    checks = []
    na = []
    for p in props:
        pid = p["id"]
        if pid in CHECKS:
            ref, text, note = CHECKS[pid]
            mod = importlib.import_module(f"mc.props.{pid.lower()}")
            checks.append({
                "property_id": pid,
                "quick_cmd": f"./check {pid} --tier quick",
                "thorough_cmd": f"./check {pid} --tier thorough",
                "evidence_file": f"/verif/evidence/{pid}.json",
                "replay_cmd_template": f"./check {pid} --replay {{path}}",
                "engine": "mc",
                "level_claimed": {"category": "model_checking", "text": text, "design_ref": ref},
                "level_note": note,
                "technique": mod.TECHNIQUE,
            })
        else:
            na.append({"property_id": pid, "reason": NOT_YET.get(pid, "check not built yet in this round (planned: DESIGN.md section 3); not claimed until its check exists and is silent on the unchanged tree")})
    m = {
        "version": 1,
        "setup_cmd": "cd /verif && PYTHONHASHSEED=0 /venv/bin/python -c \"import mc.world as w; w.install_seams(); print('seams', len(w.PATCHED))\"",
        "hooks": {"guard": "ZEROCONF_VERIF", "enable": "none needed: all seams are applied from /verif by rebinding module attributes of the imported zeroconf package (clock, random, sockets, caller-thread bridge); no source hook exists in /repo",
                  "baseline_off_cmd": "cd /repo && /venv/bin/python -m pytest -ra -q -p no:cacheprovider --timeout=900 --continue-on-collection-errors",
                  "source_commits": [], "add_only": True},
        "engines": [{"name": "mc", "path": "/verif/mc", "serves_properties": sorted(CHECKS),
                     "kind_free_text": "hand-written explicit-state / stateless explorer for the real asyncio implementation: virtual-time loop, simulated link, choice-point DFS with deviation bound (E1), BFS over histories with canonical-state dedup (E2), bounded-exhaustive input enumeration (E3), reference models in plain Python"}],
        "checks": checks,
        "not_applicable": na,
        "notes": "Technique family: model checking by exhaustive bounded exploration of the implementation itself. See DESIGN.md.",
    }
    with open(os.path.join(os.path.dirname(os.path.abspath(__file__)), "MANIFEST.json"), "w") as f:
        json.dump(m, f, indent=1)
    print("checks", len(checks), "not_applicable", len(na))

main()
