#!/venv/bin/python
"""Regenerates MANIFEST.json from the table below (keeps it valid and in one place)."""
import json, os, importlib, sys
sys.path.insert(0, os.path.dirname(os.path.abspath(__file__)))
os.environ.setdefault("PYTHONHASHSEED", "0")

CHECKS = {
 # id: (design_ref, level text, level note)
 "C05": ("3/C05", "All histories of response datagrams and clock steps up to the reported depth over the reported alphabet are executed on the real record manager and cache (live instance, real purge timer); after every event all lookup paths are compared with an independent RFC 6762 s.10 model. Exhaustive within alphabet and depth.",
         "Trusted: the virtual loop/clock seam, the s.10 reference model, the wire encoder of /verif. Values outside the alphabet are covered by the region argument (DESIGN 1), not by execution."),
}
NOT_YET = {}

def main():
    props = [json.loads(l) for l in open(os.path.join(os.path.dirname(os.path.abspath(__file__)), "properties.jsonl"))]
    checks = []
    na = []
    for p in props:
        pid = p["id"]
        if pid in CHECKS:
            ref, text, note = CHECKS[pid]
            mod = importlib.import_module(f"mc.props.{pid.lower()}")
            checks.append({
                "property_id": pid,
                "quick_cmd": f"./check {pid} --tier quick",
                "thorough_cmd": f"./check {pid} --tier thorough",
                "evidence_file": f"/verif/evidence/{pid}.json",
                "replay_cmd_template": f"./check {pid} --replay {{path}}",
                "engine": "mc",
                "level_claimed": {"category": "model_checking", "text": text, "design_ref": ref},
                "level_note": note,
                "technique": mod.TECHNIQUE,
            })
        else:
            na.append({"property_id": pid, "reason": NOT_YET.get(pid, "check not built yet in this round (planned: DESIGN.md section 3); not claimed until its check exists and is silent on the unchanged tree")})
    m = {
        "version": 1,
        "setup_cmd": "cd /verif && PYTHONHASHSEED=0 /venv/bin/python -c \"import mc.world as w; w.install_seams(); print('seams', len(w.PATCHED))\"",
        "hooks": {"guard": "ZEROCONF_VERIF", "enable": "none needed: all seams are applied from /verif by rebinding module attributes of the imported zeroconf package (clock, random, sockets, caller-thread bridge); no source hook exists in /repo",
                  "baseline_off_cmd": "cd /repo && /venv/bin/python -m pytest -ra -q -p no:cacheprovider --timeout=900 --continue-on-collection-errors",
                  "source_commits": [], "add_only": True},
        "engines": [{"name": "mc", "path": "/verif/mc", "serves_properties": sorted(CHECKS),
                     "kind_free_text": "hand-written explicit-state / stateless explorer for the real asyncio implementation: virtual-time loop, simulated link, choice-point DFS with deviation bound (E1), BFS over histories with canonical-state dedup (E2), bounded-exhaustive input enumeration (E3), reference models in plain Python"}],
        "checks": checks,
        "not_applicable": na,
        "notes": "Technique family: model checking by exhaustive bounded exploration of the implementation itself. See DESIGN.md.",
    }
    with open(os.path.join(os.path.dirname(os.path.abspath(__file__)), "MANIFEST.json"), "w") as f:
        json.dump(m, f, indent=1)
    print("checks", len(checks), "not_applicable", len(na))

main()
