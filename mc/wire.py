"""Independent RFC 1035 / RFC 6762 wire codec used as reference: an encoder that can be told exactly
how to compress (or how to be malformed) and a *strict* decoder.  Imports nothing from zeroconf.

Entry shapes (plain tuples; `cls` carries the cache-flush / QU bit 0x8000):
    ('Q', name, qtype, cls)
    ('A', name, cls, ttl, addr4)            ('AAAA', name, cls, ttl, addr16)
    ('PTR', name, cls, ttl, target)         ('CNAME', name, cls, ttl, target)
    ('TXT', name, cls, ttl, data)           ('SRV', name, cls, ttl, prio, weight, port, target)
    ('HINFO', name, cls, ttl, cpu, os)      ('NSEC', name, cls, ttl, next_name, (rdtypes...))
    ('RAW', name, rtype, cls, ttl, rdata)   # any other type
Names are text with a trailing dot ('.' alone is the root); labels are the dot-separated parts.
"""
from __future__ import annotations

import struct
from typing import Any, Dict, List, Optional, Sequence, Tuple, Union

T_A, T_CNAME, T_PTR, T_HINFO, T_TXT, T_AAAA, T_SRV, T_NSEC, T_ANY = 1, 5, 12, 13, 16, 28, 33, 47, 255
TYPE_OF = {"A": T_A, "CNAME": T_CNAME, "PTR": T_PTR, "HINFO": T_HINFO, "TXT": T_TXT, "AAAA": T_AAAA,
           "SRV": T_SRV, "NSEC": T_NSEC}
KIND_OF = {v: k for k, v in TYPE_OF.items()}
SUPPORTED = set(KIND_OF)

F_RESPONSE, F_AA, F_TC = 0x8000, 0x0400, 0x0200
MAX_NAME = 253
MAX_LABELS = 127
MAX_HOPS = 127


class Reject(Exception):
    """The strict decoder refuses the datagram."""


def _b(x: Union[str, bytes]) -> bytes:
    return x.encode("utf-8") if isinstance(x, str) else bytes(x)


def labels_of(name: Union[str, Sequence[bytes]]) -> List[bytes]:
    if isinstance(name, str):
        if name in (".", ""):
            return []
        n = name[:-1] if name.endswith(".") else name
        return [l.encode("utf-8") for l in n.split(".")]
    return [bytes(l) for l in name]


# --------------------------------------------------------------------------------------------------
# Encoder
# --------------------------------------------------------------------------------------------------


class Encoder:
    def __init__(self, compress: bool = True) -> None:
        self.buf = bytearray()
        self.compress = compress
        self.table: Dict[Tuple[bytes, ...], int] = {}

    def name(self, name: Union[str, Sequence[bytes]]) -> None:
        labels = labels_of(name)
        for i in range(len(labels)):
            suffix = tuple(labels[i:])
            off = self.table.get(suffix) if self.compress else None
            if off is not None:
                self.buf += struct.pack(">H", 0xC000 | off)
                return
            if len(self.buf) < 0x3FFF:
                self.table[suffix] = len(self.buf)
            lab = labels[i]
            if len(lab) > 63:
                raise ValueError("label too long for the reference encoder")
            self.buf.append(len(lab))
            self.buf += lab
        self.buf.append(0)

    def rdata(self, e: tuple) -> None:
        k = e[0]
        if k in ("A", "AAAA"):
            self.buf += e[4]
        elif k in ("PTR", "CNAME"):
            self.name(e[4])
        elif k == "TXT":
            self.buf += e[4]
        elif k == "SRV":
            self.buf += struct.pack(">HHH", e[4], e[5], e[6])
            self.name(e[7])
        elif k == "HINFO":
            for s in (e[4], e[5]):
                s = _b(s)
                self.buf.append(len(s))
                self.buf += s
        elif k == "NSEC":
            self.name(e[4])
            self.buf += nsec_bitmap(e[5])
        elif k == "RAW":
            self.buf += e[5]
        else:
            raise ValueError(k)

    def question(self, q: tuple) -> None:
        _, name, qtype, cls = q
        self.name(name)
        self.buf += struct.pack(">HH", qtype, cls)

    def record(self, e: tuple) -> None:
        k = e[0]
        if k == "RAW":
            _, name, rtype, cls, ttl, _ = e
        else:
            name, cls, ttl = e[1], e[2], e[3]
            rtype = TYPE_OF[k]
        self.name(name)
        self.buf += struct.pack(">HHL", rtype, cls, ttl)
        pos = len(self.buf)
        self.buf += b"\0\0"
        self.rdata(e)
        struct.pack_into(">H", self.buf, pos, len(self.buf) - pos - 2)


def nsec_bitmap(rdtypes: Sequence[int]) -> bytes:
    out = bytearray()
    windows: Dict[int, bytearray] = {}
    for t in sorted(set(rdtypes)):
        w = windows.setdefault(t >> 8, bytearray(32))
        w[(t & 0xFF) >> 3] |= 0x80 >> (t & 7)
    for w in sorted(windows):
        bm = bytes(windows[w]).rstrip(b"\0")
        out.append(w)
        out.append(len(bm))
        out += bm
    return bytes(out)


def encode(id_: int = 0, flags: int = 0, questions: Sequence[tuple] = (), answers: Sequence[tuple] = (),
           authorities: Sequence[tuple] = (), additionals: Sequence[tuple] = (), compress: bool = True) -> bytes:
    enc = Encoder(compress)
    enc.buf += struct.pack(">HHHHHH", id_, flags, len(questions), len(answers), len(authorities), len(additionals))
    for q in questions:
        enc.question(q)
    for sec in (answers, authorities, additionals):
        for e in sec:
            enc.record(e)
    return bytes(enc.buf)


def response(answers: Sequence[tuple], additionals: Sequence[tuple] = (), compress: bool = True) -> bytes:
    return encode(0, F_RESPONSE | F_AA, (), answers, (), additionals, compress)


def query(questions: Sequence[tuple], answers: Sequence[tuple] = (), authorities: Sequence[tuple] = (),
          id_: int = 0, tc: bool = False) -> bytes:
    return encode(id_, F_TC if tc else 0, questions, answers, authorities, ())


# --------------------------------------------------------------------------------------------------
# Strict decoder
# --------------------------------------------------------------------------------------------------


class Message:
    __slots__ = ("id", "flags", "questions", "answers", "authorities", "additionals")

    def __init__(self) -> None:
        self.id = 0
        self.flags = 0
        self.questions: List[tuple] = []
        self.answers: List[tuple] = []
        self.authorities: List[tuple] = []
        self.additionals: List[tuple] = []

    @property
    def is_response(self) -> bool:
        return bool(self.flags & F_RESPONSE)

    @property
    def truncated(self) -> bool:
        return bool(self.flags & F_TC)

    def records(self) -> List[tuple]:
        return self.answers + self.authorities + self.additionals

    def all_supported(self) -> bool:
        return all(r[0] != "RAW" for r in self.records())


def text(labels: Sequence[bytes]) -> str:
    """The textual form the library uses: labels decoded with 'replace', joined by dots, trailing dot."""
    return ".".join(l.decode("utf-8", "replace") for l in labels) + "."


class _Reader:
    def __init__(self, data: bytes) -> None:
        self.d = data
        self.n = len(data)
        self.pos = 0
        self.max_name = MAX_NAME

    def need(self, k: int) -> None:
        if self.pos + k > self.n:
            raise Reject(f"truncated at {self.pos}+{k}")

    def u8(self) -> int:
        self.need(1)
        v = self.d[self.pos]
        self.pos += 1
        return v

    def u16(self) -> int:
        self.need(2)
        v = (self.d[self.pos] << 8) | self.d[self.pos + 1]
        self.pos += 2
        return v

    def u32(self) -> int:
        self.need(4)
        v = struct.unpack_from(">L", self.d, self.pos)[0]
        self.pos += 4
        return v

    def take(self, k: int) -> bytes:
        self.need(k)
        v = self.d[self.pos:self.pos + k]
        self.pos += k
        return v

    def name(self) -> List[bytes]:
        """Backward-only pointers, bounded hops/labels/length; leaves pos after the in-line part."""
        labels: List[bytes] = []
        pos = self.pos
        end: Optional[int] = None
        hops = 0
        total = 0
        while True:
            if pos >= self.n:
                raise Reject("name runs off the datagram")
            l = self.d[pos]
            if l == 0:
                pos += 1
                break
            if l & 0xC0 == 0xC0:
                if pos + 1 >= self.n:
                    raise Reject("truncated pointer")
                target = ((l & 0x3F) << 8) | self.d[pos + 1]
                if target >= pos:
                    raise Reject("pointer is not backward")
                if target < 12:
                    raise Reject("pointer into the header")
                hops += 1
                if hops > MAX_HOPS:
                    raise Reject("too many pointer hops")
                if end is None:
                    end = pos + 2
                pos = target
                continue
            if l & 0xC0:
                raise Reject("reserved label type")
            if pos + 1 + l > self.n:
                raise Reject("label runs off the datagram")
            labels.append(self.d[pos + 1:pos + 1 + l])
            total += l + 1
            if len(labels) > MAX_LABELS or total > self.max_name:
                raise Reject("name too long")
            pos += 1 + l
        self.pos = end if end is not None else pos
        if len(text(labels)) > self.max_name or sum(len(x) + 1 for x in labels) > self.max_name:
            raise Reject("name too long")
        return labels


def strict_decode(data: bytes, max_name: int = MAX_NAME) -> Message:
    """max_name is only raised by a caller that has already established that the datagram is rejected for a name beyond
    the RFC 1035 limit and wants to compare the rest of it."""
    r = _Reader(data)
    r.max_name = max_name
    m = Message()
    if len(data) < 12:
        raise Reject("short header")
    m.id = r.u16()
    m.flags = r.u16()
    nq, nan, nau, nad = r.u16(), r.u16(), r.u16(), r.u16()
    for _ in range(nq):
        name = r.name()
        qtype = r.u16()
        cls = r.u16()
        m.questions.append(("Q", text(name), qtype, cls))
    for count, sec in ((nan, m.answers), (nau, m.authorities), (nad, m.additionals)):
        for _ in range(count):
            sec.append(_record(r))
    if r.pos != r.n:
        raise Reject("trailing bytes")
    return m


def _record(r: _Reader) -> tuple:
    name = text(r.name())
    rtype = r.u16()
    cls = r.u16()
    ttl = r.u32()
    rdlen = r.u16()
    r.need(rdlen)
    end = r.pos + rdlen
    kind = KIND_OF.get(rtype)
    if kind == "A":
        if rdlen != 4:
            raise Reject("A rdlength")
        rec: tuple = ("A", name, cls, ttl, r.take(4))
    elif kind == "AAAA":
        if rdlen != 16:
            raise Reject("AAAA rdlength")
        rec = ("AAAA", name, cls, ttl, r.take(16))
    elif kind in ("PTR", "CNAME"):
        rec = (kind, name, cls, ttl, text(r.name()))
    elif kind == "TXT":
        rec = ("TXT", name, cls, ttl, r.take(rdlen))
    elif kind == "SRV":
        if rdlen < 7:
            raise Reject("SRV rdlength")
        prio, weight, port = r.u16(), r.u16(), r.u16()
        rec = ("SRV", name, cls, ttl, prio, weight, port, text(r.name()))
    elif kind == "HINFO":
        cpu = r.take(r.u8())
        os_ = r.take(r.u8())
        rec = ("HINFO", name, cls, ttl, cpu, os_)
    elif kind == "NSEC":
        nxt = text(r.name())
        types: List[int] = []
        last = -1
        if r.pos >= end:
            raise Reject("NSEC without bitmap")
        while r.pos < end:
            w = r.u8()
            ln = r.u8()
            if w <= last or not 1 <= ln <= 32 or r.pos + ln > end:
                raise Reject("NSEC window")
            last = w
            bm = r.take(ln)
            if bm[-1] == 0:
                raise Reject("NSEC trailing zero octet")
            for i, byte in enumerate(bm):
                for bit in range(8):
                    if byte & (0x80 >> bit):
                        types.append(w * 256 + i * 8 + bit)
        rec = ("NSEC", name, cls, ttl, nxt, tuple(types))
    else:
        rec = ("RAW", name, rtype, cls, ttl, r.take(rdlen))
    if r.pos != end:
        raise Reject("rdata length mismatch")
    return rec


# --------------------------------------------------------------------------------------------------
# Lenient view used by trace oracles (never raises on what the library itself produced)
# --------------------------------------------------------------------------------------------------


def decode(data: bytes) -> Message:
    """Decode a datagram the library sent. Same parser; a Reject here is itself a finding for C01/C14."""
    return strict_decode(data)
