"""C18 - service-info lookup: bounded, cache-first, never from expired data (E1, full product)."""
from __future__ import annotations

import itertools
from typing import Any, Dict, List, Optional, Set, Tuple

from .. import wire
from ..explore import Stats, digest, explore_product
from ..scen import Decoded, RandPolicy
from ..world import HarnessError, World

ID = "C18"
TECHNIQUE = ("stateless exploration of the full product grid (4^4 cache states of SRV/TXT/A/AAAA in {absent, fresh, "
             "stale, expired-unpurged} x arrival time of each missing record in {never, 50, 250, timeout-1, timeout, "
             "timeout+1 ms} x timeout x forced question type x extra addresses) on a real AsyncServiceInfo.async_request; "
             "oracle: return time, success iff an unexpired address of the SRV target was known in time, field "
             "provenance, query trace")

TYPE, NAME = "_a._tcp.local.", "x._a._tcp.local."
HOSTN = "h.local."
GOOD = {
    "srv": ("SRV", NAME, 0x8001, 120, 1, 2, 80, HOSTN),
    "txt": ("TXT", NAME, 0x8001, 4500, b"\x05a=new"),
    "a": ("A", HOSTN, 0x8001, 120, bytes([10, 0, 0, 7])),
    "aaaa": ("AAAA", HOSTN, 0x8001, 120, bytes.fromhex("fe800000000000000000000000000007")),
}
A_EXTRA = ("A", HOSTN, 1, 120, bytes([10, 0, 0, 8]))  # no cache-flush bit: it must not push the other address out
OLD = {  # what an expired-but-unpurged copy looks like: different rdata, so that using it is visible
    "srv": ("SRV", NAME, 0x8001, 10, 9, 9, 9999, "old.local."),
    "txt": ("TXT", NAME, 0x8001, 10, b"\x05a=old"),
    "a": ("A", HOSTN, 0x8001, 10, bytes([10, 9, 9, 9])),
    "aaaa": ("AAAA", HOSTN, 0x8001, 10, bytes.fromhex("fe800000000000000000000000009999")),
}
OLD_A_AT_OLD_HOST = ("A", "old.local.", 0x8001, 120, bytes([10, 9, 9, 1]))
KINDS = ("srv", "txt", "a", "aaaa")
STATES = ("absent", "fresh", "stale", "expired")


def points(tier: str) -> List[Dict[str, Any]]:
    pts: List[Dict[str, Any]] = []
    timeouts = (200, 3000, 10000) if tier == "quick" else (200, 1000, 3000, 10000)
    for cache in itertools.product(STATES, repeat=4):
        st = dict(zip(KINDS, cache))
        missing = [k for k in KINDS if st[k] in ("absent", "expired")]
        for timeout in timeouts:
            arr_main = ("never", 50, 250, timeout - 1, timeout, timeout + 1)
            if tier != "quick":
                # ... and around the instants of the lookup's own second and third query
                arr_main = tuple(dict.fromkeys(arr_main + tuple(x for x in (219, 221, 1219, 1221) if x < timeout)))
            menus = []
            for k in missing:
                if k in ("srv", "a"):
                    menus.append(arr_main)
                else:
                    menus.append(("never", 50))
            for arr in itertools.product(*menus):
                for forced in (None, "QU", "QM"):
                    pts.append({"cache": st, "timeout": timeout, "arrive": dict(zip(missing, arr)), "forced": forced,
                                "extra": False})
    # another lookup of the same instance (another object, same Zeroconf) asked the same questions shortly before and
    # timed out: its QM questions sit in the instance's question history when this lookup starts
    for prior_timeout in (400, 1000, 3000):
        for gap in (0, 1, 300, 700, 999, 1500):
            for cache in (("absent",) * 4, ("absent", "fresh", "absent", "absent"), ("stale", "stale", "absent", "absent")):
                for arr in ("never", 50):
                    for forced in (None, "QU"):
                        st = dict(zip(KINDS, cache))
                        missing = [k for k in KINDS if st[k] == "absent"]
                        pts.append({"cache": st, "timeout": 3000, "arrive": {k: arr for k in missing}, "forced": forced,
                                    "extra": False, "prior": {"timeout": prior_timeout, "gap": gap}})
    # the missing records arrive together in one datagram, in every order (an address may precede the SRV record naming its host)
    for n_ in (2, 3, 4):
        for order in itertools.permutations(KINDS, n_):
            if "srv" not in order or not ({"a", "aaaa"} & set(order)):
                continue
            for timeout in (300, 3000):
                pts.append({"cache": {k: "absent" for k in KINDS}, "timeout": timeout, "bundle": list(order),
                            "arrive": {k: (50 if k in order else "never") for k in KINDS}, "forced": None, "extra": False})
            # ... and late: after the lookup's last query, when nothing but the deadline is left to wake it
            for timeout, at in ((200, 100), (1000, 600), (1000, 990), (3000, 2800), (3000, 1500)):
                pts.append({"cache": {k: "absent" for k in KINDS}, "timeout": timeout, "bundle": list(order), "bundle_at": at,
                            "arrive": {k: (at if k in order else "never") for k in KINDS}, "forced": None, "extra": False})
    # the only cached address runs out while the lookup is still waiting for the SRV record that would make it usable
    for life in (100, 240, 750, 1500):
        for srv_at in (50, 230, 500, 1000, 2000):
            for txt in ("absent", "fresh"):
                pts.append({"cache": {"srv": "absent", "txt": txt, "a": "dying", "aaaa": "absent"}, "timeout": 3000,
                            "dying_ms": life, "arrive": {"srv": srv_at, "aaaa": "never"} | ({"txt": "never"} if txt == "absent" else {}),
                            "forced": None, "extra": False})
    # a superseded copy next to the current one: the cache holds a fresh record and, learnt *after* it, another record of the
    # same name and type with other rdata that has run out but is not purged yet (what a changed-and-changed-back TXT or SRV
    # leaves behind for up to ten seconds)
    for k in KINDS:
        for others in ("fresh", "absent-arrive", "absent-never"):
            for timeout in (300, 3000):
                st = {x: ("fresh" if others == "fresh" else "absent") for x in KINDS}
                st[k] = "fresh+exp"
                if others != "fresh" and k in ("a", "aaaa"):
                    st["srv"] = "fresh"  # an address is only useful with its SRV record
                missing = [x for x in KINDS if st[x] == "absent"]
                pts.append({"cache": st, "timeout": timeout, "arrive": {x: (50 if others == "absent-arrive" else "never")
                                                                         for x in missing}, "forced": None, "extra": False})
    # a lookup object that is used again after the service moved to another host
    for b_state in ("absent", "fresh", "expired"):
        for b_arrives in ("never", 50, 250):
            for timeout in (300, 3000):
                for txt_changes in (False, True):
                    pts.append({"reuse": True, "b_state": b_state, "b_arrives": b_arrives, "timeout": timeout,
                                "txt_changes": txt_changes, "cache": {}, "arrive": {}, "forced": None, "extra": False})
    # a lookup object that already knows the host name: built with server=..., or reused after a lookup that learnt SRV/TXT
    # but timed out for lack of an address; the cache is then completed and the object asked again
    for how in ("server-given", "server-given-recased", "retry-after-timeout"):
        for a_state in ("fresh", "stale", "absent", "expired"):
            for timeout in (300, 3000):
                pts.append({"knows_host": how, "a_state": a_state, "timeout": timeout, "cache": {}, "arrive": {},
                            "forced": None, "extra": False})
    # extra address / old host variants on a reduced set
    for st_a in ("fresh", "stale"):
        for st_srv in ("fresh", "absent", "expired"):
            for arr in ("never", 50):
                pts.append({"cache": {"srv": st_srv, "txt": "fresh", "a": st_a, "aaaa": "absent"}, "timeout": 3000,
                            "arrive": ({"srv": arr} if st_srv != "fresh" else {}) | {"aaaa": "never"}, "forced": None,
                            "extra": True})
    # the device goes away while it is asked: a goodbye (TTL 0) for exactly the expired-but-unpurged copy arrives 50 ms into the
    # lookup (a goodbye only reaches listeners when an equal record is cached) - a record that has expired when it is read
    for cache in itertools.product(STATES, repeat=4):
        st = dict(zip(KINDS, cache))
        gone = [k for k in KINDS if st[k] == "expired"]
        if not gone:
            continue
        missing = [k for k in KINDS if st[k] in ("absent", "expired")]
        for others in ("never", 250):
            for together in (False, True):
                if together and len(gone) < 2:
                    continue
                pts.append({"cache": st, "timeout": 1000, "arrive": {k: ("never" if k in gone else others) for k in missing},
                            "forced": None, "extra": False, "bye": gone, "bye_together": together})
    pts += [dict(q, names="sharp") for q in pts[::9]] + [dict(q, names="selfhost") for q in pts[4::9]]
    # the same lookups through the convenience entry points of Zeroconf and AsyncZeroconf (every 11th point, and every point
    # with a forced question type and nothing cached)
    base = [q for q in pts if not any(k in q for k in ("prior", "bundle", "reuse", "knows_host", "names", "dying_ms"))]
    forced_cold = [q for q in base if q["forced"] and all(v == "absent" for v in q["cache"].values()) and q["timeout"] == 3000]
    for api in ("zc", "azc"):
        pts += [dict(q, api=api) for q in base[::11]] + [dict(q, api=api) for q in forced_cold[::3]]
    return pts


# the same scenarios with names whose lower-cased and case-folded spellings differ (sharp s, micro sign, final sigma): every
# way of filing and finding a record by name has to agree on ONE canonical spelling
_SHARP = {"x._a._tcp.local.": "Straße µ ς._a._tcp.local.", "h.local.": "weiß-µ.local.", "hb.local.": "groß.local."}
_NAMED = ("NAME", "HOSTN", "GOOD", "OLD", "A_EXTRA", "HOST_B", "SRV_B", "A_B", "A_B_OLD", "TXT_B")


# ... and with a service whose host name IS its instance name (what a description registered without a host name announces):
# the address records are then owned by the instance name
_SELFHOST = {"h.local.": "x._a._tcp.local."}
_MAPS = {"sharp": _SHARP, "selfhost": _SELFHOST}


def _renamed(x: Any, m: Dict[str, str]) -> Any:
    if isinstance(x, str):
        return m.get(x, x)
    if isinstance(x, tuple):
        return tuple(_renamed(v, m) for v in x)
    if isinstance(x, list):
        return [_renamed(v, m) for v in x]
    if isinstance(x, dict):
        return {k: _renamed(v, m) for k, v in x.items()}
    return x


def run_point(p: Dict[str, Any], verbose: bool = False) -> Tuple[Optional[Dict[str, Any]], str, int]:
    if p.get("names") in _MAPS:
        g = globals()
        saved = {k: g[k] for k in _NAMED}
        try:
            for k in _NAMED:
                g[k] = _renamed(saved[k], _MAPS[p["names"]])
            return _run_point(p, verbose)
        finally:
            g.update(saved)
    return _run_point(p, verbose)


def _run_point(p: Dict[str, Any], verbose: bool = False) -> Tuple[Optional[Dict[str, Any]], str, int]:
    from zeroconf import DNSQuestionType
    from zeroconf.asyncio import AsyncServiceInfo

    problems: List[str] = []
    if p.get("reuse"):
        return run_reuse(p, verbose)
    if p.get("knows_host"):
        return run_knows_host(p, verbose)
    st, timeout, arrive = p["cache"], p["timeout"], p["arrive"]
    with World(rand=RandPolicy.const(0.0)) as w:
        host = w.new_zeroconf()
        zc = host.zc
        t_start_inst = w.now_ms
        # the lookup starts 4 s after a purge so that expired records are still in the cache (next purge 6 s later...)
        # records are received so that at t0 they are at 25 % (fresh) / 75 % (stale) of their TTL or expired 1 s ago
        t0 = t_start_inst + 120_000 + 4_000
        n = 0
        for k in KINDS:
            s = st[k]
            if s == "absent":
                continue
            if s == "dying":
                n += 1
                rec = GOOD[k]
                w.loop.call_at((t0 + p["dying_ms"] - rec[3] * 1000) / 1000, w.net.inject, host,
                               wire.encode(n, 0x8400, (), [rec]), ("10.0.0.50", 5353))
                continue
            if s == "fresh+exp":
                n += 2
                good = GOOD[k]
                stale_copy = OLD[k][:2] + (1,) + OLD[k][3:]  # no cache-flush bit: it must not push the good copy out
                w.loop.call_at((t0 - 0.25 * good[3] * 1000) / 1000, w.net.inject, host, wire.encode(n, 0x8400, (), [good]),
                               ("10.0.0.50", 5353))
                w.loop.call_at((t0 - 11_000) / 1000, w.net.inject, host, wire.encode(n + 1, 0x8400, (), [stale_copy]),
                               ("10.0.0.50", 5353))
                continue
            rec = OLD[k] if s == "expired" else GOOD[k]
            ttl = rec[3]
            age = {"fresh": 0.25 * ttl * 1000, "stale": 0.75 * ttl * 1000, "expired": ttl * 1000 + 1000}[s]
            n += 1
            w.loop.call_at((t0 - age) / 1000, w.net.inject, host, wire.encode(n, 0x8400, (), [rec]), ("10.0.0.50", 5353))
        if p["extra"] and st["a"] in ("fresh", "stale"):
            w.loop.call_at((t0 - 5000) / 1000, w.net.inject, host, wire.encode(50, 0x8400, (), [A_EXTRA]), ("10.0.0.50", 5353))
        if st["srv"] == "expired":
            # an address for the host the expired SRV points to: must never be used
            w.loop.call_at((t0 - 5000) / 1000, w.net.inject, host, wire.encode(51, 0x8400, (), [OLD_A_AT_OLD_HOST]),
                           ("10.0.0.50", 5353))
        if p.get("prior"):
            pr = p["prior"]

            async def earlier() -> None:
                await AsyncServiceInfo(TYPE, NAME).async_request(zc, pr["timeout"])

            # (with SRV/TXT cached the earlier lookup asks only for what is missing, like this one)
            w.loop.call_at((t0 - pr["gap"] - pr["timeout"]) / 1000, lambda: w.spawn(earlier()))
        w.advance_to_ms(t0)
        for k in KINDS:
            if st[k] == "expired" and not any(r.is_expired(w.now_ms) for r in zc.cache.entries_with_name(OLD[k][1])):
                raise HarnessError("expired-unpurged state not established")
        if p.get("bundle"):
            w.loop.call_at((t0 + p.get("bundle_at", 50)) / 1000, w.net.inject, host, wire.encode(99, 0x8400, (), [GOOD[k] for k in p["bundle"]]),
                           ("10.0.0.50", 5353))
        for k, off in arrive.items():
            if p.get("bundle"):
                break
            if off != "never":
                n += 1
                w.loop.call_at((t0 + off) / 1000, w.net.inject, host, wire.encode(100 + n, 0x8400, (), [GOOD[k]]),
                               ("10.0.0.50", 5353))
        if p.get("bye"):
            byes = [OLD[k][:3] + (0,) + OLD[k][4:] for k in p["bye"]]
            for j, grp in enumerate([byes] if p.get("bye_together") else [[b] for b in byes]):
                w.loop.call_at((t0 + 50 + j) / 1000, w.net.inject, host, wire.encode(200 + j, 0x8400, (), grp), ("10.0.0.50", 5353))
        forced = {None: None, "QU": DNSQuestionType.QU, "QM": DNSQuestionType.QM}[p["forced"]]
        info = AsyncServiceInfo(TYPE, NAME)
        done: Dict[str, Any] = {}

        api = p.get("api", "request")

        async def go() -> None:
            nonlocal info
            if api == "request":
                done["result"] = await info.async_request(zc, timeout, forced)
            else:
                # the convenience entry points build the object themselves and return it, or None
                owner = zc if api == "zc" else host.azc
                got = await owner.async_get_service_info(TYPE, NAME, timeout, forced)
                done["result"] = got is not None
                if got is not None:
                    info = got
            done["t"] = w.now_ms

        n_before = len(w.net.trace)
        w.spawn(go())
        w.advance_to_ms(t0 + timeout + 2000)
        if "t" not in done:
            problems.append(f"bounded: async_request has not returned {timeout + 2000} ms after the call")
            result, t_ret = None, None
        else:
            result, t_ret = done["result"], done["t"] - t0
            if t_ret > timeout + 0.001:
                problems.append(f"bounded: returned {t_ret:.1f} ms after the call, timeout {timeout} ms")
        # ---- when did the lookup know SRV and an address?
        def avail(k: str) -> Optional[float]:
            if st[k] in ("fresh", "stale", "fresh+exp", "dying"):
                return 0.0
            off = arrive.get(k, "never")
            return None if off == "never" else float(off)

        srv_t = avail("srv")
        addr_ts = [t for t in (avail("a"), avail("aaaa")) if t is not None]
        addr_t = min(addr_ts) if addr_ts else None
        known = None if srv_t is None or addr_t is None else max(srv_t, addr_t)
        if p.get("dying_ms") is not None:
            # the only address record runs out `dying_ms` into the lookup: it only counts if the SRV record is known by then
            addr_t = 0.0
            known = srv_t if (srv_t is not None and srv_t < p["dying_ms"]) else None
            if srv_t is not None and abs(srv_t - p["dying_ms"]) < 1:
                known = timeout  # same instant: either result
        if result is not None:
            if known is None or known > timeout:
                if result:
                    problems.append(f"iff: returned True although no unexpired address of the SRV target was known within "
                                    f"{timeout} ms (SRV at {srv_t}, address at {addr_t})")
            elif known < timeout:
                if not result:
                    problems.append(f"iff: returned False although SRV (at +{srv_t}) and an address (at +{addr_t}) were known "
                                    f"before the {timeout} ms deadline")
            # known == timeout: the record and the deadline fall in the same instant - either result is accepted
            if result and known is not None and known < timeout and t_ret is not None and t_ret > known + 0.5:
                pass  # promptness is not part of the statement
        if result:
            # provenance: nothing may come from expired copies
            ok_srv = GOOD["srv"]
            if (info.server, info.port, info.priority, info.weight) != (ok_srv[7], ok_srv[6], ok_srv[4], ok_srv[5]):
                problems.append(f"provenance: host/port/priority/weight {(info.server, info.port, info.priority, info.weight)} "
                                f"do not come from an unexpired SRV record")
            txt_known = avail("txt")
            allowed_txt = {b""} | ({GOOD["txt"][4]} if txt_known is not None else set())
            if info.text not in allowed_txt:
                problems.append(f"provenance: TXT {info.text!r} does not come from an unexpired TXT record")
            if txt_known is not None and t_ret is not None and txt_known <= t_ret - 1 and info.text != GOOD["txt"][4]:
                problems.append(f"provenance: an unexpired TXT record was known at +{txt_known} but text is {info.text!r}")
            from zeroconf import IPVersion
            got_addrs = set(info.addresses_by_version(IPVersion.All))
            good_addrs: Set[bytes] = set()
            for k in ("a", "aaaa"):
                if avail(k) is not None:
                    good_addrs.add(GOOD[k][4])
            if p["extra"] and st["a"] in ("fresh", "stale"):
                good_addrs.add(A_EXTRA[4])
            # RFC 6762 s.10.2 grace second: a cache-flush record gives every other cached record of its name/type/class
            # one more second (C06), including a copy whose own TTL had already run out but was not purged yet
            for k in ("a", "aaaa"):
                if st[k] == "expired" and arrive.get(k, "never") != "never":
                    good_addrs.add(OLD[k][4])
            if not got_addrs or not got_addrs <= good_addrs:
                problems.append(f"provenance: addresses {sorted(got_addrs)} are not all unexpired address records of the "
                                f"host {sorted(good_addrs)}")
            if known == 0.0 and t_ret is not None and t_ret <= 0.01:
                cached_now = {GOOD[k][4] for k in ("a", "aaaa") if st[k] in ("fresh", "stale", "fresh+exp", "dying")}
                if p["extra"] and st["a"] in ("fresh", "stale"):
                    cached_now.add(A_EXTRA[4])
                if got_addrs != cached_now:
                    problems.append(f"provenance: served from the cache with addresses {sorted(got_addrs)}, the cache "
                                    f"holds {sorted(cached_now)}")
        # ---- query trace
        sent = [Decoded(s) for s in w.net.trace[n_before:] if s.host == host.name]
        queries = [d for d in sent if not d.is_response]
        if known == 0.0:
            if sent:
                problems.append(f"cache-first: {len(sent)} datagram(s) sent although the cache already sufficed")
        else:
            if not queries:
                problems.append("queries: nothing was asked although the cache did not suffice")
            for k_, d in enumerate(sorted(queries, key=lambda d: d.t_ms)):
                first = d.t_ms == min(q.t_ms for q in queries)
                want_qu = first and p["forced"] != "QM"
                for q in d.msg.questions:
                    if bool(q[3] & 0x8000) != want_qu:
                        problems.append(f"queries: question {q[1]}/{q[2]} of the query at +{d.t_ms - t0:.0f} has "
                                        f"QU={bool(q[3] & 0x8000)}, expected {want_qu}")
                if t_ret is not None and d.t_ms - t0 > t_ret + 0.001:
                    problems.append(f"queries: query sent at +{d.t_ms - t0:.0f} ms, after the lookup returned (+{t_ret:.0f})")
                fresh_srv = st["srv"] in ("fresh", "fresh+exp")
                fresh_txt = st["txt"] in ("fresh", "fresh+exp")
                asked = {(q[1].lower(), q[2]) for q in d.msg.questions}
                if first:
                    if fresh_srv and (NAME.lower(), 33) in asked:
                        problems.append("queries: SRV asked although a non-stale SRV answer is held")
                    if fresh_txt and (NAME.lower(), 16) in asked:
                        problems.append("queries: TXT asked although a non-stale TXT answer is held")
                    if not fresh_srv and (NAME.lower(), 33) not in asked:
                        problems.append("queries: first query does not ask for the missing SRV record")
        excs = w.exceptions()
        if excs:
            problems.append(f"exception in the event loop: {excs[0]}")
        obs = digest((result, t_ret, [(round(d.t_ms - t0, 3), d.sent.data) for d in sent],
                      sorted(info.addresses_by_version(__import__("zeroconf").IPVersion.All)), info.text, info.port))
        if verbose:
            print("    result", result, "returned at", t_ret, "server", info.server, "port", info.port, "text", info.text,
                  "addresses", info.addresses_by_version(__import__("zeroconf").IPVersion.All))
            for d in sent:
                print(f"    +{d.t_ms - t0:.1f}", d.brief())
    verdict = None
    if problems:
        verdict = {"what": f"C18 {p}: {problems[0][:600]}", "replay": {"problems": problems[:5]},
                   "signature": {"check": problems[0].split(":")[0]}}
    return verdict, obs, w.loop.handles_run


HOST_B = "hb.local."
SRV_B = ("SRV", NAME, 0x8001, 120, 1, 2, 81, HOST_B)
A_B = ("A", HOST_B, 0x8001, 120, bytes([10, 0, 0, 20]))
A_B_OLD = ("A", HOST_B, 0x8001, 10, bytes([10, 9, 9, 20]))
TXT_B = ("TXT", NAME, 0x8001, 4500, b"\x05a=two")


def run_reuse(p: Dict[str, Any], verbose: bool = False) -> Tuple[Optional[Dict[str, Any]], str, int]:
    """The same AsyncServiceInfo object resolves the instance twice; in between the service moves to host B."""
    from zeroconf import IPVersion
    from zeroconf.asyncio import AsyncServiceInfo

    problems: List[str] = []
    timeout = p["timeout"]
    with World(rand=RandPolicy.const(0.0)) as w:
        host = w.new_zeroconf()
        zc = host.zc

        def inject(recs: List[tuple], n: int) -> None:
            w.net.inject(host, wire.encode(n, 0x8400, (), recs), ("10.0.0.50", 5353))
            w.settle()

        w.advance(4000)
        inject([GOOD["srv"], GOOD["txt"], GOOD["a"]], 1)
        info = AsyncServiceInfo(TYPE, NAME)
        first = w.run_coro(info.async_request(zc, 3000))
        if not first or info.server != HOSTN:
            problems.append(f"reuse: first lookup failed ({first}, {info.server})")
        if p["b_state"] == "expired":
            inject([A_B_OLD], 2)
        w.advance(12_000)  # the old copy of B's address (if any) expires; next purge is still some seconds away
        if p["b_state"] == "fresh":
            inject([A_B], 3)
        inject([SRV_B] + ([TXT_B] if p["txt_changes"] else []), 4)  # cache-flush: the old SRV (and TXT) go within a second
        w.advance(1500)
        t0 = w.now_ms
        if p["b_arrives"] != "never":
            w.loop.call_at((t0 + p["b_arrives"]) / 1000, w.net.inject, host, wire.encode(5, 0x8400, (), [A_B]), ("10.0.0.50", 5353))
        n_before = len(w.net.trace)
        done: Dict[str, Any] = {}

        async def go() -> None:
            done["result"] = await info.async_request(zc, timeout)
            done["t"] = w.now_ms - t0

        w.spawn(go())
        w.advance(timeout + 1500)
        known = 0.0 if p["b_state"] == "fresh" else (None if p["b_arrives"] == "never" else float(p["b_arrives"]))
        if "t" not in done:
            problems.append("bounded: the second lookup never returned")
        else:
            res, t_ret = done["result"], done["t"]
            if t_ret > timeout + 0.001:
                problems.append(f"bounded: returned after {t_ret:.0f} ms, timeout {timeout}")
            if known is None or known > timeout:
                if res:
                    problems.append(f"iff: second lookup returned True although no unexpired address of the new host {HOST_B} "
                                    f"was ever known (addresses {info.addresses_by_version(IPVersion.All)})")
            elif known < timeout and not res:
                problems.append(f"iff: second lookup returned False although {HOST_B} had an address at +{known}")
            if res:
                addrs = set(info.addresses_by_version(IPVersion.All))
                if info.server != HOST_B or info.port != 81:
                    problems.append(f"provenance: server/port {(info.server, info.port)} not from the unexpired SRV record")
                if not addrs or not addrs <= {A_B[4]}:
                    problems.append(f"provenance: addresses {sorted(addrs)} are not address records of {HOST_B}")
                if p["txt_changes"] and info.text != TXT_B[4]:
                    problems.append(f"provenance: text {info.text!r} is not the unexpired TXT record")
            sent = [Decoded(s) for s in w.net.trace[n_before:] if s.host == host.name]
            if known == 0.0 and sent:
                problems.append("cache-first: datagrams sent although the cache sufficed")
            if known != 0.0 and not sent:
                problems.append(f"queries: nothing asked although no address of {HOST_B} was cached")
        excs = w.exceptions()
        if excs:
            problems.append(f"exception in the event loop: {excs[0]}")
        obs = digest((done.get("result"), done.get("t"), sorted(info.addresses_by_version(IPVersion.All)), info.server))
        if verbose:
            print("    second lookup:", done, info.server, info.port, info.text, info.addresses_by_version(IPVersion.All))
    verdict = None
    if problems:
        verdict = {"what": f"C18 {p}: {problems[0][:600]}", "replay": {"problems": problems[:5]},
                   "signature": {"check": problems[0].split(":")[0]}}
    return verdict, obs, w.loop.handles_run


def run_knows_host(p: Dict[str, Any], verbose: bool = False) -> Tuple[Optional[Dict[str, Any]], str, int]:
    """The lookup object knows the host name before the lookup under test starts."""
    from zeroconf import IPVersion
    from zeroconf.asyncio import AsyncServiceInfo

    problems: List[str] = []
    timeout, how, a_state = p["timeout"], p["knows_host"], p["a_state"]
    with World(rand=RandPolicy.const(0.0)) as w:
        host = w.new_zeroconf()
        zc = host.zc

        def inject(recs: List[tuple], n: int) -> None:
            w.net.inject(host, wire.encode(n, 0x8400, (), recs), ("10.0.0.50", 5353))
            w.settle()

        w.advance(4000)
        if how == "retry-after-timeout":
            inject([GOOD["srv"], GOOD["txt"]], 1)
            info = AsyncServiceInfo(TYPE, NAME)
            first = w.run_coro(info.async_request(zc, 500))
            if first:
                problems.append("knows-host: first lookup succeeded without any address")
        else:
            inject([GOOD["srv"], GOOD["txt"]], 1)
            info = AsyncServiceInfo(TYPE, NAME, server=HOSTN if how == "server-given" else "H.LOCAL.")
        # now the address situation of the cache is established
        if a_state == "expired":
            inject([OLD["a"]], 2)
            w.advance(12_000)
        elif a_state in ("fresh", "stale"):
            inject([GOOD["a"]], 3)
            w.advance(30_000 if a_state == "fresh" else 90_000)
            inject([("SRV", NAME, 1, 120, 1, 2, 80, HOSTN), ("TXT", NAME, 1, 4500, GOOD["txt"][4])], 4)  # keep SRV/TXT fresh
        else:
            w.advance(1000)
        t0 = w.now_ms
        n_before = len(w.net.trace)
        done: Dict[str, Any] = {}

        async def go() -> None:
            done["result"] = await info.async_request(zc, timeout)
            done["t"] = w.now_ms - t0

        w.spawn(go())
        w.advance(timeout + 1500)
        suffices = a_state in ("fresh", "stale")
        if "t" not in done:
            problems.append("bounded: the lookup never returned")
        else:
            res, t_ret = done["result"], done["t"]
            sent = [Decoded(s) for s in w.net.trace[n_before:] if s.host == host.name]
            if suffices:
                if not res:
                    problems.append(f"iff: returned False after {t_ret:.0f} ms although the cache holds SRV, TXT and an unexpired "
                                    f"address of {HOSTN}")
                if sent:
                    problems.append(f"cache-first: {len(sent)} datagram(s) sent although the cache already sufficed")
                if res and set(info.addresses_by_version(IPVersion.All)) != {GOOD["a"][4]}:
                    problems.append(f"provenance: addresses {info.addresses_by_version(IPVersion.All)}")
            else:
                if res:
                    problems.append(f"iff: returned True without an unexpired address ({info.addresses_by_version(IPVersion.All)})")
                if not sent:
                    problems.append("queries: nothing asked although no unexpired address is cached")
            if t_ret > timeout + 0.001:
                problems.append(f"bounded: returned after {t_ret:.0f} ms, timeout {timeout}")
        excs = w.exceptions()
        if excs:
            problems.append(f"exception in the event loop: {excs[0]}")
        obs = digest((done.get("result"), done.get("t"), sorted(info.addresses_by_version(IPVersion.All))))
    verdict = None
    if problems:
        verdict = {"what": f"C18 {p}: {problems[0][:600]}", "replay": {"problems": problems[:5]},
                   "signature": {"check": problems[0].split(":")[0]}}
    return verdict, obs, w.loop.handles_run


def run(tier: str, seed: int) -> Tuple[Stats, str, List[str], Dict[str, Any]]:
    stats = Stats()
    pts = points(tier)
    for k in (11, len(pts) // 2):
        if run_point(pts[k])[1] != run_point(pts[k])[1]:
            raise HarnessError("C18 scenario is not deterministic")
    explore_product(run_point, pts, stats, f"C18/{tier}")
    stats.states = len(stats.outcomes)
    rule = ("full product: 256 cache states x timeouts x arrival time per missing record (one record per datagram) x "
            "forced type; one execution = cache prepared by real response datagrams at the right ages, async_request, "
            "run to timeout + 2 s; outcomes = distinct (result, return time, query trace, fields)")
    assumptions = [
        "missing records are delivered one per datagram (an address preceding its SRV inside one datagram is outside "
        "what the statement decides)",
        "a record arriving exactly at the deadline instant: either result accepted",
        "'knows an address' requires the SRV record (the host name) to be known first or at the same time",
        "expired-unpurged copies carry different rdata than fresh ones so that any use of them is visible",
        "an expired-unpurged address that a later cache-flush record of the same name/type marks to expire one second "
        "later (C06) counts as unexpired during that second",
    ]
    return stats, rule, assumptions, {"points": len(pts)}


def replay(data: Dict[str, Any]) -> int:
    p = dict(data["point"])
    for k, v in list(p["arrive"].items()):
        p["arrive"][k] = v
    v, o1, _ = run_point(p, verbose=True)
    if o1 != run_point(p)[1]:
        print("HARNESS-ERROR: replay is not deterministic")
        return 2
    if v:
        print("VIOLATION reproduced:", v["what"])
        for x in v["replay"]["problems"]:
            print("   ", x)
        return 1
    print("no violation on this tree")
    return 0
