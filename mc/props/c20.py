"""C20 - record identity: all ordered pairs over a bounded vocabulary vs. an identity-tuple model (E3)."""
from __future__ import annotations

import itertools
from typing import Any, Dict, List, Tuple

from ..explore import Stats, pmap
from ..world import install_seams

ID = "C20"
TECHNIQUE = ("bounded-exhaustive enumeration of all ordered pairs of records/questions over a vocabulary that varies "
             "one identity field at a time; ==, hash, set/dict membership, DNSRRSet and DNSCache lookups compared with "
             "an independent identity-tuple model")

IN, FL, CH = 1, 0x8001, 3


class _Answers:
    """Stands in for a received message: `DNSRecord.suppressed_by` only asks it for its answers."""

    def __init__(self, answers: list) -> None:
        self._answers = answers

    def answers(self) -> list:
        return self._answers


def vocabulary(tier: str) -> List[Tuple[tuple, tuple]]:
    """[(constructor spec, expected identity)] - identity per the property text, written independently."""
    # the last four are pairwise different names whichever caseless comparison is meant (ASCII or Unicode lower-casing):
    # only full case *folding* would merge them
    names = ["h.local.", "H.Local.", "g.local.", "straße.local.", "strasse.local.", "ﬁ.local.", "fi.local."]
    if tier == "thorough":
        names += ["H.LOCAL.", "h.local", "ſ.local.", "s.local."]
    classes = [IN, FL, CH]
    ttls = [0, 120] if tier == "quick" else [0, 120, 4500]
    createds = [1000.0, 2000.0]
    v: List[Tuple[tuple, tuple]] = []

    def add(kind: str, name: str, type_: int, cls: int, rdata: tuple, rident: tuple) -> None:
        for ttl in ttls:
            for cr in createds:
                v.append(((kind, name, type_, cls, ttl, rdata, cr), (kind, name.lower(), type_, cls & 0x7FFF, rident)))

    ip4 = [b"\x01\x01\x01\x01", b"\x01\x01\x01\x02"]
    ip6 = [bytes(15) + b"\x01", bytes(15) + b"\x02"]
    for n in names:
        for c in classes:
            for a in ip4:
                add("addr", n, 1, c, (a, None), (a, None))
            for a in ip6:
                for sc in (None, 0, 1, 2):  # 0 is what the socket layer reports for an unscoped source: distinct from None
                    add("addr", n, 28, c, (a, sc), (a, sc))
            add("addr", n, 28, c, (ip4[0], None), (ip4[0], None))  # odd but constructible: AAAA with 4 bytes
            for t in (12, 5):
                for alias in ("x.local.", "X.Local.", "y.local."):
                    add("ptr", n, t, c, (alias,), (alias.lower(),))
            # (zero-length rdata and a single zero octet *mean* the same to RFC 6763 s.6.1 - they are still different rdata)
            for txt in (b"", b"\x00", b"\x01a", b"\x01A", b"\x01a\x00"):
                add("txt", n, 16, c, (txt,), (txt,))
            for srv in ((0, 0, 80, "s.local."), (0, 0, 80, "S.LOCAL."), (1, 0, 80, "s.local."), (0, 1, 80, "s.local."),
                        (0, 0, 81, "s.local."), (0, 0, 80, "t.local.")):
                add("srv", n, 33, c, srv, srv[:3] + (srv[3].lower(),))
            for hi in (("cpu", "os"), ("CPU", "os"), ("cpu", "OS"), ("cpu", "")):
                add("hinfo", n, 13, c, hi, hi)
            for ns in (("h.local.", (1,)), ("H.local.", (1,)), ("h.local.", (1, 28)), ("h.local.", (28, 1)),
                       ("h.local.", (28,))):
                add("nsec", n, 47, c, ns, (ns[0], tuple(sorted(ns[1]))))
            # different kinds sharing name, type and class must still differ
            add("txt", n, 12, c, (b"x.local.",), (b"x.local.",))
            add("ptr", n, 16, c, ("x.local.",), ("x.local.",))
    return v


def parsed_vocabulary() -> List[Tuple[tuple, tuple]]:
    """The same records as the decoder hands them over, parsed from the wire on a socket without / with an interface scope:
    where a record arrived must not change which record it is (only an IPv6 address carries a scope)."""
    out = []
    ip4 = b"\x01\x01\x01\x01"
    ip6 = bytes(15) + b"\x01"
    for scope in (None, 3):
        for cls in (IN, FL):
            out.append((("parsed", ("addr", "h.local.", 1, cls, 120, (ip4, None), 1000.0), scope),
                        ("addr", "h.local.", 1, cls & 0x7FFF, (ip4, None))))
            out.append((("parsed", ("addr", "h.local.", 28, cls, 120, (ip6, None), 1000.0), scope),
                        ("addr", "h.local.", 28, cls & 0x7FFF, (ip6, scope))))
            out.append((("parsed", ("ptr", "h.local.", 12, cls, 120, ("x.local.",), 1000.0), scope),
                        ("ptr", "h.local.", 12, cls & 0x7FFF, ("x.local.",))))
            out.append((("parsed", ("srv", "h.local.", 33, cls, 120, (0, 0, 80, "s.local."), 1000.0), scope),
                        ("srv", "h.local.", 33, cls & 0x7FFF, (0, 0, 80, "s.local."))))
            out.append((("parsed", ("txt", "h.local.", 16, cls, 120, (b"\x01a",), 1000.0), scope),
                        ("txt", "h.local.", 16, cls & 0x7FFF, (b"\x01a",))))
    return out


def question_vocabulary() -> List[Tuple[tuple, tuple]]:
    out = []
    for n in ("h.local.", "H.Local.", "g.local.", "_a._tcp.local.", "_A._TCP.local.", "straße.local.", "strasse.local."):
        for t in (1, 12, 28, 33, 255):
            for c in (IN, FL, CH, CH | 0x8000):
                out.append((("q", n, t, c), ("q", n.lower(), t, c & 0x7FFF)))
    return out


def build(spec: tuple) -> Any:
    from zeroconf import (DNSAddress, DNSHinfo, DNSNsec, DNSPointer, DNSQuestion, DNSService, DNSText)

    kind = spec[0]
    if kind == "parsed":
        from zeroconf import DNSIncoming, DNSOutgoing
        out = DNSOutgoing(0x8400)
        out.add_answer_at_time(build(spec[1]), 0)
        return DNSIncoming(out.packets()[0], ("fe80::9", 5353) if spec[2] else ("10.0.0.9", 5353), spec[2]).answers()[0]
    if kind == "q":
        return DNSQuestion(spec[1], spec[2], spec[3])
    _, name, t, c, ttl, rd, cr = spec
    if kind == "addr":
        return DNSAddress(name, t, c, ttl, rd[0], scope_id=rd[1], created=cr)
    if kind == "ptr":
        return DNSPointer(name, t, c, ttl, rd[0], cr)
    if kind == "txt":
        return DNSText(name, t, c, ttl, rd[0], cr)
    if kind == "srv":
        return DNSService(name, t, c, ttl, rd[0], rd[1], rd[2], rd[3], cr)
    if kind == "hinfo":
        return DNSHinfo(name, t, c, ttl, rd[0], rd[1], cr)
    if kind == "nsec":
        return DNSNsec(name, t, c, ttl, rd[0], list(rd[1]), cr)
    raise ValueError(kind)


def containers(a: Any, is_rec: bool) -> Dict[str, Any]:
    """Every container of the library that goes by identity, holding just `a`."""
    from zeroconf import DNSCache
    from zeroconf._dns import DNSRRSet
    if not is_rec:
        # the consumer of question identity: the duplicate-question history (a question asked a moment ago is the one
        # being asked now iff they are the same question)
        from zeroconf._history import QuestionHistory
        hist = QuestionHistory()
        hist.add_question_at_time(a, 1000.0, set())
        return {"set": {a}, "hist": hist}
    cache = DNSCache()
    cache.async_add_records([a])
    return {"set": {a}, "rr": DNSRRSet([a]), "cache": cache, "msg": _Answers([a])}


def pair_problems(a: Any, ia: tuple, b: Any, ib: tuple, cont: Dict[str, Any], is_rec: bool) -> List[str]:
    """Container behaviour: b is found in a set / RRSet / cache / history holding a iff a and b are the same record."""
    from zeroconf import DNSPointer
    from zeroconf._dns import DNSNsec
    bad: List[str] = []
    want = ia == ib
    sa = cont["set"]
    if not is_rec:
        if (b in sa) != want:
            bad.append("question set membership disagrees with identity")
        asked = cont["hist"].suppresses(b, 1500.0, set())
        if bool(asked) != want:
            bad.append(f"question history: asked 500 ms ago is {bool(asked)}, same question: {want}")
        return bad
    rr, cache, msg_a = cont["rr"], cont["cache"], cont["msg"]
    if (b in sa) != want:
        bad.append(f"set membership {b in sa} but identity says {want}")
    sup = rr.suppresses(b)
    want_sup = want and a.ttl > b.ttl / 2
    if sup != want_sup:
        bad.append(f"DNSRRSet.suppresses is {sup}, expected {want_sup}")
    # the linear known-answer path (DNSRecord.suppressed_by / DNSOutgoing.add_answer) must agree with it
    # (through the public entry point: is b suppressed by a message whose answers are [a]?)
    sup2 = b.suppressed_by(msg_a)
    if bool(sup2) != want_sup:
        bad.append(f"DNSRecord._suppressed_by_answer is {sup2}, expected {want_sup}")
    g = cache.async_get_unique(b)
    if (g is a) != want:
        bad.append(f"DNSCache.async_get_unique found={g is a}, identity says {want}")
    same_name = ia[1] == ib[1]
    if (a in cache.entries_with_name(b.name)) != same_name:
        bad.append(f"DNSCache.entries_with_name finds the record: {not same_name}, names equal: {same_name}")
    want_d = same_name and a.type == b.type and a.class_ == b.class_
    if (a in cache.get_all_by_details(b.name, b.type, b.class_)) != want_d:
        bad.append(f"DNSCache.get_all_by_details finds the record: {not want_d}, expected {want_d}")
    if want_d and hasattr(a, "set_created_ttl") and hasattr(cache, "async_mark_unique_records_older_than_1s_to_expire"):
        # the cache-flush rule (RFC 6762 s.10.2) goes by the same identity: a record received with the flush bit
        # displaces the cached records of its name, type and class - in any spelling - that are not the same record
        c0, t0_ = a.created, a.ttl
        a.set_created_ttl(1000.0, 120)
        cache.async_mark_unique_records_older_than_1s_to_expire({(b.name, b.type, b.class_)}, [b], 7000.0)
        marked = (a.created, a.ttl) == (7000.0, 1)
        a.set_created_ttl(c0, t0_)
        if marked != (not want):
            bad.append(f"cache flush by the second record marks the cached first one: {marked}, same record: {want}")
    if same_name and isinstance(b, DNSPointer) and hasattr(cache, "current_entry_with_name_and_alias") \
            and hasattr(a, "set_created_ttl") and (isinstance(a, DNSPointer) or a.type not in (5, 12)):
        # (the vocabulary also holds objects whose class and type code disagree - a text record carrying the
        # type code of a pointer; the wire cannot produce those, they are left out here)
        # "is this instance already advertised under this type?" - answered by pointer records (type PTR) only,
        # names compared case-insensitively; the class is not part of the question asked (either answer accepted)
        from zeroconf._utils.time import current_time_millis as _ctm
        c0, t0_ = a.created, a.ttl
        a.set_created_ttl(_ctm(), 120)
        hit = cache.current_entry_with_name_and_alias(b.name, b.alias)
        a.set_created_ttl(c0, t0_)
        want_hit = isinstance(a, DNSPointer) and a.type == 12 and a.alias.lower() == b.alias.lower()
        if (hit is a) != want_hit and not (want_hit is False and hit is None):
            bad.append(f"DNSCache.current_entry_with_name_and_alias({b.name!r}, {b.alias!r}) finds the cached "
                       f"record: {hit is a}, a pointer record (type PTR) with that target: {want_hit}")
    if not isinstance(b, DNSNsec):
        g2 = cache.get(b)
        if (g2 is a) != want:
            bad.append(f"DNSCache.get found={g2 is a}, identity says {want}")
    return bad


def run(tier: str, seed: int) -> Tuple[Stats, str, List[str], Dict[str, Any]]:
    install_seams()
    from zeroconf import DNSCache, DNSPointer
    from zeroconf._dns import DNSRRSet
    from zeroconf._dns import DNSNsec

    stats = Stats()
    vocab = vocabulary(tier) + parsed_vocabulary()
    qv = question_vocabulary()
    specs = [s for s, _ in vocab] + [s for s, _ in qv]
    idents = [i for _, i in vocab] + [i for _, i in qv]
    nrec = len(vocab)
    objs = [build(s) for s in specs]
    n = len(objs)

    def row(i: int) -> Tuple[int, Dict[str, int], List[Tuple[int, int, str]]]:
        a, ia = objs[i], idents[i]
        bad: List[Tuple[int, int, str]] = []
        out = {"equal": 0, "unequal": 0}
        is_rec_a = i < nrec
        for j in range(n):
            b, ib = objs[j], idents[j]
            want = ia == ib
            got = a == b
            if bool(got) != want:
                bad.append((i, j, f"== is {got}, identity model says {want}"))
                continue
            if (b == a) != got:
                bad.append((i, j, "== is not symmetric"))
            if (a != b) == got:
                bad.append((i, j, "!= disagrees with =="))
            if want and hash(a) != hash(b):
                bad.append((i, j, "equal records with different hashes"))
            out["equal" if want else "unequal"] += 1
        cont = containers(a, is_rec_a)
        for j in (range(nrec) if is_rec_a else range(nrec, n)):
            for why in pair_problems(a, ia, objs[j], idents[j], cont, is_rec_a):
                bad.append((i, j, why))
        return n, out, bad[:10]

    results = pmap(row, list(range(n)))
    from ..explore import Violation
    for cnt, out, bad in results:
        stats.executions += cnt
        stats.transitions += cnt
        for k, v in out.items():
            stats.outcome(k, v)
        for (i, j, why) in bad:
            if stats.room({"check": why.split(",")[0][:40]}, 100):
                stats.violations.append(Violation(f"C20 {specs[i]} vs {specs[j]}: {why}",
                                                  {"a": specs[i], "b": specs[j], "why": why, "same_identity": idents[i] == idents[j],
                                                   "ident_a": idents[i], "ident_b": idents[j]},
                                                  {"check": why.split(",")[0][:40]}))
    stats.states = len(set(idents))
    stats.notes["objects"] = n
    stats.notes["distinct_identities"] = len(set(idents))
    for k in (0, nrec // 2, n - 1):
        stats.sample({"a": specs[k], "b": specs[(k * 7 + 3) % n]})
    stats.outcome(f"identities:{len(set(idents))}", 0)
    rule = ("all ordered pairs (a, b) over the vocabulary (records: 7 kinds incl. PTR/CNAME and A/AAAA, 3 classes, TTLs, "
            "created times, rdata variants differing in one field; questions x QU/QM); an evaluation is one pair; "
            "non-trivial distinct cases = distinct identity classes")
    assumptions = ["NSEC next-name is compared case-sensitively (the statement lists only PTR target and SRV host as "
                   "case-insensitive)", "NSEC rdtype lists without duplicates",
                   "DNSCache.get is not evaluated for NSEC probes (NSEC is not a unique-record type there)"]
    return stats, rule, assumptions, {"objects": n, "pairs": n * n}


def replay(data: Dict[str, Any]) -> int:
    install_seams()
    a, b = build(tuple(data["a"])), build(tuple(data["b"]))
    print("a =", a, "\nb =", b, "\n a==b:", a == b, " b==a:", b == a, " hash equal:", hash(a) == hash(b))
    print("recorded:", data["why"], "| identity model says same record:", data["same_identity"])
    bad = (a == b) != data["same_identity"] or (b == a) != (a == b) or (a == b and hash(a) != hash(b)) or \
        ((a in {b}) != data["same_identity"])
    ia, ib = tuple(data.get("ident_a") or ()), tuple(data.get("ident_b") or ())
    more: List[str] = []
    if ia and ib:
        is_rec = data["a"][0] != "q"
        more = pair_problems(a, ia, b, ib, containers(a, is_rec), is_rec)
        for m in more:
            print("   ", m)
    print("VIOLATION reproduced" if bad or more else "the recorded pair behaves as the identity model says on this tree")
    return 1 if bad or more else 0
