"""C19 - service-name validation per RFC 6763 and TXT property round trip (E3)."""
from __future__ import annotations

import itertools
from typing import Any, Dict, Iterator, List, Optional, Tuple

from ..explore import Stats, Violation, enumerate_inputs
from ..models import name_model as nm
from ..world import install_seams

ID = "C19"
TECHNIQUE = ("bounded-exhaustive enumeration: full product of a rule-violation grammar for service names (both "
             "strict modes) plus every short string over a 5-character alphabet, against an independent three-valued "
             "RFC 6763 validator; all small property dictionaries against an independent RFC 6763 s.6 TXT parser")

INSTANCES = ["", "Inst.", "My Instance.", "dotted.inst.", "ünï.", "a" * 63 + ".", "a" * 64 + ".",
             "é" * 31 + "a.", "é" * 32 + ".", "a\x00b.", "a\x1fb.", "a\x7fb.", "\t.", ".", "..", "a..b.", ".a.",
             "_sub.", "x._sub.", "._sub.", "x.y._sub.", "a" * 63 + "._sub.", "a" * 64 + "._sub.", "x\x01._sub.",
             "a" * 40 + "." + "b" * 40 + ".", "_sub._sub.", "x._sub.y.",
             # instance labels (they may contain dots) that spell out a protocol trailer themselves
             "foo._tcp.local.", "_a._tcp.local.", "x._udp.local.", "_a._tcp.local.bad.", "foo._tcp.local." + "x" * 60 + "."]
SERVICES = ["_http", "_a", "_", "http", "_ht--tp", "_-http", "_http-", "_1234", "_a1-b", "_abcdefghijklmno",
            "_abcdefghijklmnop", "_ht_tp", "_ht tp", "_hté", "", "_HTTP", "_1a", "__a", "_a_", "-", "_-", "_a.b"]
PROTOS = ["._tcp", "._udp", "._TCP", "._sctp", "", ".tcp", "._tcp._tcp"]
DOMAINS = [".local.", ".local", ".LOCAL.", ".example.", ".", ".local.local."]


def grammar() -> Iterator[Tuple[str, bool]]:
    for i, s, p, d in itertools.product(INSTANCES, SERVICES, PROTOS, DOMAINS):
        for strict in (True, False):
            yield (i + s + p + d, strict)
    # whole-name length boundary (only reachable with long labels): 255, 256, 257 characters
    for total in (255, 256, 257):
        for tail in ("._tcp.local.", ".local."):
            for head in ("_", "Inst._", "x._sub._"):
                pad = total - len(head) - len(tail)
                for strict in (True, False):
                    yield (head + "a" * pad + tail, strict)
            pad = total - len(tail) - len("._http")
            for strict in (True, False):
                yield ("i" * 60 + "." + "j" * (pad - 61) + "._http" + tail, strict)


def short_strings(maxlen: int) -> Iterator[Tuple[str, bool]]:
    alpha = "_a-1."
    for n in range(maxlen + 1):
        for t in itertools.product(alpha, repeat=n):
            pre = "".join(t)
            for suffix in ("._tcp.local.", ".local.", "._http._tcp.local.", "_tcp.local."):
                for strict in (True, False):
                    yield (pre + suffix, strict)


def code_points(tier: str) -> Iterator[Tuple[str, bool]]:
    """Every non-ASCII code point of the Basic Multilingual Plane (thorough: every code point) as a character of the
    service label: caseless matching and Unicode-aware character classes let a few of them pass as a letter or digit."""
    top = 0x10000 if tier == "quick" else 0x110000
    # every ASCII character (control characters, newline, punctuation) at the start, in the middle and at the end of the
    # service label
    for cp in range(0x00, 0x80):
        c = chr(cp)
        for name in (f"_a{c}._tcp.local.", f"_{c}a._tcp.local.", f"_a{c}b._tcp.local.", f"x._a{c}._udp.local.",
                     f"x._sub._a{c}._tcp.local."):
            for strict in (True, False):
                yield (name, strict)
    for cp in range(0x80, top):
        c = chr(cp)  # lone surrogates included: such a string cannot be a name, and must be refused like any other
        # ... and as a character of the instance / subtype label, where everything but ASCII control characters is legal
        for name in (f"_a{c}._tcp.local.", f"_{c}._tcp.local.", f"_1{c}._udp.local.", f"x{c}y._http._tcp.local.",
                     f"{c}._sub._http._tcp.local."):
            for strict in (True, False):
                yield (name, strict)


def check_name(case: Tuple[str, bool]) -> Tuple[Optional[Dict[str, Any]], str]:
    from zeroconf import BadTypeInNameException
    from zeroconf._utils.name import service_type_name

    name, strict = case
    want, result = nm.verdict(name, strict)
    try:
        got = service_type_name(name, strict=strict)
        outcome = "returned"
    except BadTypeInNameException:
        got = None
        outcome = "rejected"
    except Exception as e:  # noqa: BLE001 - "and no other error"
        return ({"what": f"C19 service_type_name({name!r}, strict={strict}) raised {type(e).__name__}: {e}",
                 "replay": {"kind": "name"}, "signature": {"check": "other-exception", "exc": type(e).__name__}},
                "other-exception")
    bad = None
    if want == nm.ACCEPT:
        if got != result:
            bad = f"returned {got!r} / rejected, documented rules accept it as {result!r}"
    elif want == nm.REJECT:
        if got is not None:
            bad = f"accepted as {got!r}, documented rules reject it"
    else:
        if got is not None and got != result:
            bad = f"returned {got!r}, expected {result!r} or a rejection"
    if bad:
        return ({"what": f"C19 service_type_name({name!r}, strict={strict}): {bad}", "replay": {"kind": "name"},
                 "signature": {"check": "verdict"}}, "mismatch")
    if not strict and want in (nm.ACCEPT, nm.REJECT):
        # the same verdict through the constructor of a service description (which validates non-strictly): built with
        # the type the name ends in - the validator's own result, or the last three labels when those are a plain type
        from zeroconf import ServiceInfo
        type_ = result if want == nm.ACCEPT else None
        if type_ is None:
            tail = ".".join(name.split(".")[-4:])
            if tail != name and name.endswith("." + tail) and nm.verdict(tail, False) == (nm.ACCEPT, tail):
                type_ = tail
        if type_ is not None:
            try:
                ServiceInfo(type_, name, 80)
                built = True
            except BadTypeInNameException:
                built = False
            except Exception as e:  # noqa: BLE001
                return ({"what": f"C19 ServiceInfo({type_!r}, {name!r}) raised {type(e).__name__}: {e}",
                         "replay": {"kind": "name"}, "signature": {"check": "other-exception", "exc": type(e).__name__}},
                        "other-exception")
            if built != (want == nm.ACCEPT):
                return ({"what": f"C19 ServiceInfo({type_!r}, {name!r}) {'was built' if built else 'was refused'}, the "
                                 f"documented rules {'reject' if built else 'accept'} the name", "replay": {"kind": "name"},
                         "signature": {"check": "constructor"}}, "mismatch")
    return None, f"{want}/{outcome}"


KEYS: List[Any] = ["a", "B", b"bk", "k", "ün", b"\xff\x00", "a b", "a" * 9]
VALUES: List[Any] = [None, "", b"", "v", b"bv", "x=y", "é", 5, True, b"\x00\xff", "a" * 9, 0, False]


def txt_cases(tier: str) -> Iterator[Tuple[Tuple[Any, Any], ...]]:
    pairs = [(k, v) for k in KEYS for v in VALUES]
    yield ()
    for p in pairs:
        yield (p,)
    for p, q in itertools.permutations(pairs, 2):
        if _kb(p[0]).lower() != _kb(q[0]).lower():
            yield (p, q)
    sub = [(k, v) for k in KEYS[:4] for v in VALUES[:6]]
    if tier == "thorough":
        sub = [(k, v) for k in KEYS[:6] for v in VALUES[:8]]
    for t in itertools.permutations(sub, 3):
        if len({_kb(k).lower() for k, _ in t}) == 3:
            yield t
    # the 255-byte item limit
    for klen in (253, 254, 255):
        yield ((("k" * klen), None),)
    for klen, v in ((200, "v" * 54), (1, "v" * 253), (127, b"\x01" * 127), (253, ""), (250, "abcd")):
        yield ((("k" * klen), v),)


def _kb(k: Any) -> bytes:
    return k.encode("utf-8") if isinstance(k, str) else bytes(k)


def check_txt(case: Tuple[Tuple[Any, Any], ...]) -> Tuple[Optional[Dict[str, Any]], str]:
    from zeroconf import ServiceInfo

    props = dict(case)
    want = nm.expected_txt(list(case))
    try:
        info = ServiceInfo("_a._tcp.local.", "x._a._tcp.local.", 80, properties=props)
        text = info.text
        back = ServiceInfo("_a._tcp.local.", "x._a._tcp.local.", 80, properties=text).properties
        own = info.properties  # what the describing object itself reports back
        ref = nm.parse_txt(text, fold_empty=False)
    except Exception as e:  # noqa: BLE001
        return ({"what": f"C19 properties {case!r}: {type(e).__name__}: {e}", "replay": {"kind": "txt"},
                 "signature": {"check": "txt-exception"}}, "exception")
    bad = None
    want_exact = nm.expected_txt(list(case), fold_empty=False)  # an independent parser tells 'key=' (empty value) from 'key'
    if ref != want_exact:
        bad = f"TXT bytes {text!r} parse (RFC 6763 s.6) to {ref}, the dictionary means {want_exact}"
    elif back != want:
        bad = f"the library reads its own TXT bytes {text!r} back as {back}, expected {want}"
    elif {k: (v or None) for k, v in own.items()} != want or not all(
            isinstance(k, bytes) and (v is None or isinstance(v, bytes)) for k, v in own.items()):
        bad = f"the describing object reports properties {own}, the TXT bytes mean {want} (keys and values as bytes)"
    if bad:
        return ({"what": f"C19 properties {case!r}: {bad}", "replay": {"kind": "txt"}, "signature": {"check": "txt"}},
                "mismatch")
    return None, f"txt:{len(case)}:{sum(1 for v in want.values() if v is None)}"


UPDATE_DICTS: List[Tuple[Tuple[Any, Any], ...]] = [
    (), (("a", "1"),), (("a", "2"),), ((b"a", b"1"),), (("a", None),), (("a", ""),), (("b", "x=y"), ("c", b"\x00z")),
    (("a", "1"), ("b", None)), tuple((f"k{i}", "v") for i in range(5)),
]
UPDATE_READS = ("none", "properties", "decoded_properties", "both")


def check_update(case: Tuple[int, int, str, str]) -> Tuple[Optional[Dict[str, Any]], str]:
    """A description that has been read (its decoded views are cached) receives a TXT record with other bytes - what a
    lookup object goes through when the service changes its TXT data: afterwards every view shows the new dictionary."""
    from zeroconf import DNSText, ServiceInfo
    from zeroconf._record_update import RecordUpdate

    ia, ib, built, read = case
    a, b = UPDATE_DICTS[ia], UPDATE_DICTS[ib]
    text_b = ServiceInfo("_a._tcp.local.", "x._a._tcp.local.", 80, properties=dict(b)).text
    want = nm.expected_txt(list(b))
    try:
        props_a: Any = dict(a) if built == "dict" else ServiceInfo("_a._tcp.local.", "x._a._tcp.local.", 80, properties=dict(a)).text
        info = ServiceInfo("_a._tcp.local.", "x._a._tcp.local.", 80, properties=props_a)
        if read in ("properties", "both"):
            info.properties
        if read in ("decoded_properties", "both"):
            info.decoded_properties
        rec = DNSText("x._a._tcp.local.", 16, 0x8001, 4500, text_b, created=1000.0)
        info.async_update_records(None, 1000.0, [RecordUpdate(rec, None)])  # type: ignore[arg-type]
        got = {k: (v or None) for k, v in info.properties.items()}
        got_dec = {k.encode(): (v.encode() if v is not None else None) for k, v in info.decoded_properties.items()}
        # (the record objects built for a *registered* description - dns_text() - are another matter: a registered object is no
        # listener; only the dictionary views belong to this property)
        views = {"text": info.text == text_b, "properties": got == want, "decoded_properties": got_dec == want}
    except Exception as e:  # noqa: BLE001
        return ({"what": f"C19 TXT update {case}: {type(e).__name__}: {e}", "replay": {"kind": "update"},
                 "signature": {"check": "txt-update-exception"}}, "update:exception")
    bad = [k for k, ok in views.items() if not ok]
    if bad:
        return ({"what": f"C19 TXT update {a!r} -> {b!r} (built from {built}, read before: {read}): after the new TXT record "
                         f"arrived {bad} still show(s) the old data; properties={info.properties!r} text={info.text!r}",
                 "replay": {"kind": "update"}, "signature": {"check": "txt-update"}}, "update:stale")
    return None, "update:ok"


THREAD_DICTS: List[Tuple[Tuple[Any, Any], ...]] = [
    (("a", "1"),), (("a", "1"), ("b", None), ("c", b"")), tuple((f"k{i}", f"v{i}") for i in range(12)),
]
THREAD_OPS = ("properties", "decoded_properties")


def check_threads(case: Tuple[int, str, str]) -> Tuple[Optional[Dict[str, Any]], str]:
    """Two threads read one description that still holds undecoded TXT bytes (built from bytes, as a lookup fills it in):
    thread A is stopped before every line it executes inside the library's info module in turn, thread B then performs its
    read from start to end, A resumes - every schedule with one preemption of A.  Both reads must give the whole dictionary."""
    import sys
    import threading
    from zeroconf import ServiceInfo

    di, op_a, op_b = case
    items = THREAD_DICTS[di]
    text = ServiceInfo("_a._tcp.local.", "x._a._tcp.local.", 80, properties=dict(items)).text
    want = nm.expected_txt(list(items))

    def norm(op: str, got: Any) -> Any:
        if op == "decoded_properties":
            return {k.encode(): (v.encode() if v is not None else None) for k, v in got.items()}
        return {k: (v or None) for k, v in got.items()}

    k, schedules = 0, 0
    while True:
        k += 1
        info = ServiceInfo("_a._tcp.local.", "x._a._tcp.local.", 80, properties=text)
        parked, go = threading.Event(), threading.Event()
        seen = [0]
        res: Dict[str, Any] = {}

        def tracer(frame: Any, event: str, arg: Any) -> Any:
            if not frame.f_code.co_filename.replace("\\", "/").endswith("_services/info.py"):
                return None
            if event == "line":
                seen[0] += 1
                if seen[0] == k:
                    parked.set()
                    go.wait(20)
            return tracer

        def thread_a() -> None:
            sys.settrace(tracer)
            try:
                res["a"] = getattr(info, op_a)
            except Exception as e:  # noqa: BLE001
                res["a_exc"] = e
            finally:
                sys.settrace(None)
                parked.set()

        th = threading.Thread(target=thread_a)
        th.start()
        if not parked.wait(20):
            go.set()
            return ({"what": f"C19 threads {case}: reader thread never reached line {k}", "replay": {"kind": "threads"},
                     "signature": {"check": "threads-harness"}}, "threads:stuck")
        try:
            res["b"] = getattr(info, op_b)
        except Exception as e:  # noqa: BLE001
            res["b_exc"] = e
        go.set()
        th.join(20)
        schedules += 1
        for who, op in (("a", op_a), ("b", op_b)):
            if who + "_exc" in res:
                return ({"what": f"C19 threads {case}, A stopped before its line {k}: reader {who.upper()} raised "
                                 f"{type(res[who + '_exc']).__name__}: {res[who + '_exc']}", "replay": {"kind": "threads"},
                         "signature": {"check": "threads"}}, "threads:exception")
            got = norm(op, res[who])
            if got != want:
                return ({"what": f"C19 threads {case}, A ({op_a}) stopped before its line {k} while B ({op_b}) reads: reader "
                                 f"{who.upper()} got {len(got)} of {len(want)} properties: {got}", "replay": {"kind": "threads"},
                         "signature": {"check": "threads"}}, "threads:mismatch")
        if seen[0] < k:
            break  # A finished before reaching line k: every preemption point has been tried
    return None, f"threads:{min(schedules // 20, 9)}"


def run(tier: str, seed: int) -> Tuple[Stats, str, List[str], Dict[str, Any]]:
    install_seams()
    stats = Stats()
    maxlen = 5 if tier == "quick" else 7
    enumerate_inputs(check_name, grammar(), stats, "names-grammar")
    enumerate_inputs(check_name, short_strings(maxlen), stats, "names-short")
    enumerate_inputs(check_name, code_points(tier), stats, "names-code-points")
    enumerate_inputs(check_txt, txt_cases(tier), stats, "txt")
    enumerate_inputs(check_update, iter([(i, j, built, read) for i in range(len(UPDATE_DICTS)) for j in range(len(UPDATE_DICTS))
                                         for built in ("dict", "bytes") for read in UPDATE_READS if i != j]), stats, "txt-update")
    enumerate_inputs(check_threads, iter([(d, a, b) for d in range(len(THREAD_DICTS)) for a in THREAD_OPS for b in THREAD_OPS]),
                     stats, "txt-two-readers", chunk=1)
    stats.states = len(stats.outcomes)
    stats.sample({"name": "Inst._http._tcp.local.", "strict": True})
    stats.sample({"name": "a..b._ht--tp._tcp.local.", "strict": False})
    stats.sample({"properties": [["a", None], ["B", "x=y"]]})
    rule = ("names: full product instance x service x protocol x domain menus (every documented rule violated singly "
            "and in combination) x strict/non-strict, whole-name length boundary, and every string of length <= "
            f"{maxlen} over {{_,a,-,1,.}} before 4 suffixes, every non-ASCII code point (quick: of the BMP) inside three service labels; TXT: all dictionaries with <= 2 entries over the "
            "key/value menus, all 3-entry dictionaries over a reduced menu, item-length boundary; two reader threads on one "
            "description holding undecoded TXT bytes: every schedule with one preemption (reader A stopped before each line it "
            "executes in the library, reader B runs to completion, A resumes) x properties/decoded_properties; outcome classes = "
            "(model verdict, library outcome) per family")
    assumptions = [
        "three-valued oracle: empty labels inside the instance part, a bare '.local.' name with an over-long dotted "
        "prefix and '.local.' itself are UNSPECIFIED (either verdict accepted)",
        "TXT dictionaries: no '=' in keys, no empty keys, no keys differing only in case (RFC 6763 s.6.4), items <= 255 bytes",
        "random strings of the quantifier are replaced by the exhaustive short-string space (sampling is outside this family)",
    ]
    return stats, rule, assumptions, {"short_string_len": maxlen}


def replay(data: Dict[str, Any]) -> int:
    install_seams()
    x = data["input"]
    if data.get("kind") == "update":
        v, oc = check_update((int(x[0]), int(x[1]), x[2], x[3]))
    elif data.get("kind") == "threads":
        v, oc = check_threads((int(x[0]), x[1], x[2]))
    elif data.get("kind") == "name":
        v, oc = check_name((x[0], x[1]))
    else:
        v, oc = check_txt(tuple(tuple(p) for p in x))
    print("outcome:", oc)
    if v:
        print("VIOLATION reproduced:", v["what"])
        return 1
    print("no violation on this tree")
    return 0
