"""C16 - back-to-back duplicate datagrams change nothing (E2 tree, differential three-way runs)."""
from __future__ import annotations

import itertools
from collections import Counter
from typing import Any, Dict, List, Optional, Tuple

from .. import wire
from ..explore import Stats, digest, explore_product
from ..models.responder_model import Svc
from ..scen import Decoded, RandPolicy, make_info, register, svc_records
from ..world import HarnessError, World

ID = "C16"
TECHNIQUE = ("exhaustive enumeration of the history tree (all sequences of <= d datagrams over a query+response "
             "alphabet x gaps x age of the host's own records x jitter) on a real instance with registered services, a "
             "browser and an update listener; each history is executed three times in identical worlds - plain, with "
             "every QU-free datagram delivered twice back-to-back, with every datagram delivered twice - and the "
             "network traces and callback logs are compared")

TA, TB = "_a._tcp.local.", "_b._tcp.local."
S1 = Svc(TA, "s1._a._tcp.local.", "h1.local.", 80, b"\x03a=b", [bytes([10, 0, 0, 1])], [])
Z, Y = "z._b._tcp.local.", "y._b._tcp.local."

# (name, datagram, source port, contains a QU question)
W = "w._b._tcp.local."


def alphabet() -> List[Tuple[str, bytes, int, bool]]:
    q = wire.query
    a: List[Tuple[str, bytes, int, bool]] = [
        ("qm-ptr", q([("Q", TA, 12, 1)]), 5353, False),
        ("qu-ptr", q([("Q", TA, 12, 0x8001)]), 5353, True),
        ("qm-srv", q([("Q", S1.name, 33, 1)]), 5353, False),
        ("qm-a", q([("Q", S1.server, 1, 1)]), 5353, False),
        ("legacy-ptr", q([("Q", TA, 12, 1)], id_=0x77), 1234, False),
        ("tc-ptr", q([("Q", TA, 12, 1)], tc=True), 5353, False),
        ("tc-qu-ptr", q([("Q", TA, 12, 0x8001)], tc=True), 5353, True),
        ("probe-qm", q([("Q", TA, 12, 1)], authorities=[("PTR", TA, 1, 4500, "new._a._tcp.local.")]), 5353, False),
        ("qm-ptr+qu-srv", q([("Q", TA, 12, 1), ("Q", S1.name, 33, 0x8001)]), 5353, True),
        ("qm-ptr+txt", q([("Q", TA, 12, 1), ("Q", S1.name, 16, 1)]), 5353, False),
        ("qm-ptr/ka", q([("Q", TA, 12, 1)], answers=[("PTR", TA, 1, 4500, S1.name)]), 5353, False),
        # a query whose known answer carries the cache-flush bit (it should not, RFC 6762 s.7.1 - but it is a datagram)
        ("qm-ptr+a/ka-flush", q([("Q", TA, 12, 1), ("Q", S1.server, 1, 1)],
                                answers=[("TXT", S1.name, 0x8001, 4500, b"\x03old")]), 5353, False),
        ("r-ptr-z", wire.response([("PTR", TB, 1, 4500, Z)]), 5353, False),
        ("r-bye-z", wire.response([("PTR", TB, 1, 0, Z)]), 5353, False),
        ("r-ptr-y+srv", wire.response([("PTR", TB, 1, 4500, Y), ("SRV", Y, 0x8001, 120, 0, 0, 9, "hy.local."),
                                       ("A", "hy.local.", 0x8001, 120, bytes([10, 0, 0, 9]))]), 5353, False),
        ("r-srv-z", wire.response([("SRV", Z, 0x8001, 120, 0, 0, 9, "hz.local.")]), 5353, False),
        ("r-own", wire.response(svc_records(S1)), 5353, False),  # a cooperating responder multicasts our records
        ("r-flush-a", wire.response([("A", "hy.local.", 0x8001, 120, bytes([10, 0, 0, 10]))]), 5353, False),
        # datagrams beyond the usual 1460 bytes (a single large record makes them legal up to 8966)
        ("jumbo-qm-srv", q([("Q", S1.name, 33, 1)], answers=[("TXT", "big._x._tcp.local.", 1, 4500, b"\xfe" + b"k" * 254 + (b"\xff" + b"v" * 255) * 5)]),
         5353, False),
        # responses that repeat the question they answer, with the unicast-response bit still set (RFC 6762 s.6: to be
        # ignored in a response): the duplicate guard exempts datagrams holding such a question, so both copies are ingested
        ("r-quq-short-w", wire.encode(0, 0x8400, [("Q", TB, 12, 0x8001)], [("PTR", TB, 1, 1, W)]), 5353, True),
        ("r-quq-ptr-w", wire.encode(0, 0x8400, [("Q", TB, 12, 0x8001)], [("PTR", TB, 1, 4500, W),
                                                                        ("SRV", W, 0x8001, 120, 0, 0, 9, "hw.local.")]), 5353, True),
        # a response with the TC bit set (to be ignored on reception, RFC 6762 s.18.5)
        ("r-tc-ptr-w", wire.encode(0, 0x8600, (), [("PTR", TB, 1, 4500, W), ("A", "hw.local.", 0x8001, 120, bytes([10, 0, 0, 12]))]),
         5353, False),
        ("jumbo-r-z", wire.response([("PTR", TB, 1, 4500, Z), ("TXT", Z, 0x8001, 4500, (b"\xff" + b"t" * 255) * 6)]), 5353, False),
    ]
    return a


GAPS = [1, 500, 1001]


def points(tier: str) -> List[Dict[str, Any]]:
    names = [x[0] for x in alphabet()]
    has_qu = {x[0]: x[3] for x in alphabet()}
    events = [(g, n) for g in GAPS for n in names]
    pts: List[Dict[str, Any]] = []
    depth = 2 if tier == "quick" else 3
    ev3 = [(g, n) for g in (1, 500, 1001) for n in names[:11:2] + names[11:14]]
    for age in ("recent", "old", "ancient"):
        for jit in (0.0, 1.0):
            for e in events:
                pts.append({"age": age, "jitter": jit, "events": [e]})
            for seq in itertools.product(events, repeat=2):
                pts.append({"age": age, "jitter": jit, "events": list(seq)})
            if depth >= 3:
                for seq in itertools.product(ev3, repeat=3):
                    pts.append({"age": age, "jitter": jit, "events": list(seq)})
    # an application callback raises once while a datagram is being handled: the duplicate is a duplicate all the same
    resp = [x for x in events if x[1].startswith("r-") and x[0] in (1, 1001)]
    for e in resp:
        pts.append({"age": "recent", "jitter": 0.0, "events": [e], "raising": True})
    for seq in itertools.product(resp, repeat=2):
        pts.append({"age": "recent", "jitter": 0.0, "events": list(seq), "raising": True})
    # copies that arrive a little later than the original, around a whole second of the clock
    for age in ("recent", "old"):
        for before, after in ((100, 200), (100, 50), (999_900, 200), (500_000, 700_000), (1, 998_000)):
            for e in events:
                if after >= 500_000 and has_qu[e[1]]:
                    continue  # (a late copy of a QU query is a second query for all practical purposes: the open finding)
                pts.append({"age": age, "jitter": 0.0, "events": [e], "before_us": before, "copy_after_us": after})
    # the same on an IPv6 socket (source addresses are 4-tuples there)
    for age in ("recent", "old"):
        for e in events:
            pts.append({"age": age, "jitter": 0.0, "events": [e], "fam": "v6"})
        for seq in itertools.product([x for x in events if x[0] in (1, 1001)], repeat=2):
            if age == "recent" or depth >= 3:
                pts.append({"age": age, "jitter": 0.0, "events": list(seq), "fam": "v6"})
    return pts


class Lst:
    def __init__(self, w: World, log: List[tuple], raise_once: bool = False) -> None:
        self.w, self.log = w, log
        self.raise_once = raise_once

    def add_service(self, zc: Any, t: str, n: str) -> None:
        self.log.append((self.w.now_ms, "add", n))
        if self.raise_once:
            # an application callback that fails (once): the exception leaves datagram_received, asyncio logs it and goes on
            self.raise_once = False
            raise RuntimeError("application callback failed")

    def remove_service(self, zc: Any, t: str, n: str) -> None: self.log.append((self.w.now_ms, "rm", n))
    def update_service(self, zc: Any, t: str, n: str) -> None: self.log.append((self.w.now_ms, "upd", n))


def execute(p: Dict[str, Any], mode: str) -> Tuple[List[Tuple[float, tuple, bytes]], List[tuple], List[str], List[tuple]]:
    """mode: plain | dup-qm (datagrams without a QU question twice) | dup-all"""
    from zeroconf import RecordUpdateListener
    from zeroconf.asyncio import AsyncServiceBrowser

    alpha = {x[0]: x for x in alphabet()}
    v6 = p.get("fam") == "v6"
    with World(rand=RandPolicy.const(p["jitter"])) as w:
        host = w.new_zeroconf(mode="single6" if v6 else "single")
        zc = host.zc
        log: List[tuple] = []

        class UL(RecordUpdateListener):
            def async_update_records(self, zc_: Any, now: float, records: list) -> None:
                # the host also hears its own multicast replies; those echoes move when a reply moves and are
                # already judged on the trace, so only records that are not the host's own are logged here
                own = {S1.name.lower(), S1.server.lower(), TA}
                n = sum(1 for u in records if u.new.key not in own)
                if n:
                    log.append((now, "records", n))

            def async_update_records_complete(self) -> None:
                pass

        zc.async_add_listener(UL(), None)
        register(w, host, make_info(S1))
        AsyncServiceBrowser(zc, TB, listener=Lst(w, log, bool(p.get("raising"))))
        w.advance({"recent": 100, "old": 40_000, "ancient": 1_200_000}[p["age"]])
        t0 = w.now_ms
        n0 = len(w.net.trace)
        import socket as _socket
        proto = host.protocol_for(family=_socket.AF_INET6 if v6 else _socket.AF_INET)
        for gap, name in [tuple(e) for e in p["events"]]:
            w.advance(gap)
            _, data, port, has_qu = alpha[name]
            times = 2 if mode == "dup-all" or (mode == "dup-qm" and not has_qu) else 1
            if p.get("copy_after_us"):
                # the copy does not arrive in the very same clock reading: the first arrives `before_us` ahead of a whole
                # second of the clock, the copy `copy_after_us` later (in every run the clock moves alike)
                base_ms = (int(w.now_ms // 1000) + 1) * 1000
                w.advance_to_ms(base_ms - p["before_us"] / 1000)
            for k in range(2 if p.get("copy_after_us") else times):
                if p.get("copy_after_us") and k == 1:
                    w.loop.now_us += p["copy_after_us"]
                    if times == 1:
                        break
                try:
                    proto.datagram_received(data, ("fe80::99", port, 0, 3) if v6 else ("10.0.0.99", port))
                except RuntimeError as exc:
                    if not (p.get("raising") and "application callback failed" in str(exc)):
                        raise
                    log.append((w.now_ms, "escaped", "callback"))
            w.settle()
        w.advance(4000)
        trace = [(round(s.t_us / 1000 - t0, 3), s.dest[:2], s.data) for s in w.net.trace[n0:] if s.host == host.name]
        calls = [(round(t - t0, 3),) + tuple(rest) for (t, *rest) in log if t >= t0]
        return trace, calls, w.exceptions(), [(a, b) for a, b, _ in w.draws]


def compare(p: Dict[str, Any]) -> Tuple[Optional[str], Optional[str], str]:
    """(violation, known-finding description, observation digest)"""
    plain = execute(p, "plain")
    dqm = execute(p, "dup-qm")
    dall = execute(p, "dup-all")
    obs = digest(plain[:2])
    for name, run in (("plain", plain), ("QU-free doubled", dqm), ("all doubled", dall)):
        if run[2]:
            return f"exception in the event loop ({name} run): {run[2][0]}", None, obs
    if dqm[1] != plain[1]:
        return f"callbacks differ when QU-free datagrams are doubled: {plain[1]} vs {dqm[1]}", None, obs
    if dqm[0] != plain[0]:
        return ("trace differs when QU-free datagrams are doubled: " + describe_diff(plain[0], dqm[0])), None, obs
    # "under identical random seeds": a duplicate must not consume randomness either, or every later jittered send moves
    if dqm[3] != plain[3]:
        return f"random draws differ when QU-free datagrams are doubled: {plain[3]} vs {dqm[3]}", None, obs
    tc_draws = lambda run: sum(1 for d in run[3] if d == (400, 500))  # noqa: E731
    if tc_draws(dall) != tc_draws(dqm):
        return (f"a duplicated truncated query re-armed its reassembly timer: {tc_draws(dall)} draws of the 400-500 ms hold "
                f"instead of {tc_draws(dqm)}"), None, obs
    if dall[1] != dqm[1]:
        return f"callbacks differ when QU datagrams are doubled too: {dqm[1]} vs {dall[1]}", None, obs
    if dall[0] == dqm[0]:
        return None, None, obs
    ref, dup = Counter(dqm[0]), Counter(dall[0])
    extra, missing = dup - ref, ref - dup
    finding = None
    lag = p.get("copy_after_us", 0) / 1000  # the copy (and whatever it causes) comes this much after the original

    def same(t2: float, t: float) -> bool:
        return abs(t2 - t) < 0.002 or abs(t2 - (t - lag)) < 0.002

    for (t, dest, data), n in extra.items():
        if dest[0] not in ("224.0.0.251", "ff02::fb"):
            if any(same(t2, t) and dest2 == dest and data2 == data for (t2, dest2, data2) in ref):
                continue  # a query containing a QU question may be answered by unicast twice
            # the second answer need not be byte-identical (the first may have been assembled with a truncated
            # predecessor): it may only repeat records the first unicast reply to that querier carried in that instant
            first = set()
            for (t2, dest2, data2) in ref:
                if same(t2, t) and dest2 == dest:
                    first |= {repr(r) for r in wire.decode(data2).records()}
            if first and {repr(r) for r in wire.decode(data).records()} <= first:
                continue
            return f"doubling a QU query produced a new unicast datagram at +{t} to {dest}: {wire.decode(data).records()}", None, obs
        # a multicast difference: only the shapes of the known finding are tolerated (and reported)
        if any(same(t2, t) and dest2 == dest and data2 == data for (t2, dest2, data2) in ref):
            finding = f"multicast reply of {len(data)} bytes sent twice at +{t} ms"
            continue
        same_instant = set()
        for (t2, dest2, data2) in ref:
            if same(t2, t) and dest2 == dest:
                same_instant |= {repr(r) for r in wire.decode(data2).records()}
        if same_instant and {repr(r) for r in wire.decode(data).records()} <= same_instant:
            # not byte-identical because the first reply also answered a truncated predecessor of the query
            finding = f"records of the multicast reply at +{t} ms sent a second time in the same instant"
            continue
        # the same records, sent later by at most 500 ms (the QM part was queued twice)?
        recs = Counter(map(repr, wire.decode(data).records()))
        moved = [k for k in missing if k[1] == dest and Counter(map(repr, wire.decode(k[2]).records())) == recs
                 and 0 <= t - k[0] <= 500 + lag]
        if moved:
            finding = f"aggregated multicast reply moved from +{moved[0][0]} to +{t} ms"
            missing = missing - Counter({moved[0]: 1})
            continue
        return ("doubling a datagram with a QU question changed the multicast traffic: " +
                describe_diff(dqm[0], dall[0])), None, obs
    if missing:
        return ("doubling a datagram with a QU question removed traffic: " + describe_diff(dqm[0], dall[0])), None, obs
    return None, finding, obs


def describe_diff(a: List[tuple], b: List[tuple]) -> str:
    ca, cb = Counter(a), Counter(b)
    def fmt(items: Any) -> str:
        return str([(t, dest[0], [f"{r[0]}:{r[3]}" for r in wire.decode(data).records()]) for (t, dest, data) in list(items)[:4]])
    return f"only once: {fmt((ca - cb).elements())}; only doubled: {fmt((cb - ca).elements())}"


def run_point(p: Dict[str, Any], verbose: bool = False) -> Tuple[Optional[Dict[str, Any]], str, int]:
    violation, finding, obs = compare(p)
    if verbose:
        for mode in ("plain", "dup-qm", "dup-all"):
            tr, calls, *_rest = execute(p, mode)
            print("   ", mode, [(t, d[0], len(x)) for t, d, x in tr], calls)
    if violation:
        return ({"what": f"C16 {p}: {violation[:700]}", "replay": {}, "signature": {"check": violation.split(":")[0][:60]}},
                obs, 3)
    if finding:
        return ({"what": f"C16 {p}: {finding}", "replay": {}, "signature": {"check": "qu-duplicate-processed-twice"}}, obs, 3)
    return None, obs, 3


def run(tier: str, seed: int) -> Tuple[Stats, str, List[str], Dict[str, Any]]:
    stats = Stats()
    pts = points(tier)
    if execute(pts[40], "dup-all") != execute(pts[40], "dup-all"):
        raise HarnessError("C16 scenario is not deterministic")
    explore_product(run_point, pts, stats, f"C16/{tier}")
    stats.executions *= 3
    stats.states = len(stats.outcomes)
    stats.notes["alphabet"] = [x[0] for x in alphabet()]
    rule = ("every history of <= d (gap, datagram) events x age of the host's records x jitter; each history = three "
            "executions (plain / QU-free doubled / all doubled); outcomes = distinct plain (trace, callbacks)")
    assumptions = [
        "a duplicate is the same bytes from the same source delivered twice in the same instant on the same socket",
        "library jitter is constant per triple (all low or all high) because a doubled datagram may consume extra draws",
        "plain vs QU-free-doubled must be identical; all-doubled may only add byte-identical unicast replies, anything "
        "else is a violation - except the shapes of the listed known finding (a multicast reply, or records of it, sent "
        "a second time in the same instant / the aggregated reply moved later by <= 500 ms), which are reported as "
        "KNOWN-FINDING; a second unicast answer may only repeat records of the first",
        "random draws: plain and QU-free-doubled runs must consume identical draws; no run may draw the 400-500 ms "
        "truncated-query hold more often than the reference",
    ]
    return stats, rule, assumptions, {"points": len(pts), "alphabet": len(alphabet()), "gaps_ms": GAPS}


def replay(data: Dict[str, Any]) -> int:
    p = dict(data["point"])
    p["events"] = [tuple(e) for e in p["events"]]
    v, obs, _ = run_point(p, verbose=True)
    if v:
        print("reproduced:", v["what"], v["signature"])
        return 1
    print("no difference on this tree")
    return 0
