"""C07 - end-to-end discovery converges to the set of registered services (E1, deviation-bounded DFS)."""
from __future__ import annotations

import asyncio
from typing import Any, Dict, List, Optional, Tuple

from .. import wire
from ..explore import Chooser, Stats, digest, explore_deviations
from ..models.responder_model import Svc
from ..scen import make_info
from ..world import HarnessError, World

ID = "C07"
TECHNIQUE = ("stateless schedule exploration with iterative deviation bounding: 2- and 3-host scenarios of real instances "
             "on the simulated link; every (datagram, receiver) delivery is a choice point {1 ms, 100 ms, duplicate, drop "
             "(at most one per execution)}, every library random draw a choice point {low, high}; all executions with "
             "<= B non-default choices; convergence oracle on browser live sets and lookups made from add_service")

TA, TB = "_a._tcp.local.", "_b._tcp.local."
S1 = Svc(TA, "s1._a._tcp.local.", "h1.local.", 80, b"\x03a=b", [bytes([10, 0, 0, 1])], [])
S2 = Svc(TB, "s2._b._tcp.local.", "h1.local.", 81, b"\x01x", [bytes([10, 0, 0, 1])], [])
S3 = Svc(TA, "s3._a._tcp.local.", "h3.local.", 82, b"", [bytes([10, 0, 0, 3])], [bytes.fromhex("fe800000000000000000000000000003")])
SETTLE_MS = 15_000


class BrowserLog:
    def __init__(self, w: World, owner: Any, lookups: List[Dict[str, Any]]) -> None:
        self.w, self.owner, self.lookups = w, owner, lookups
        self.live: set = set()
        self.events: List[tuple] = []

    def add_service(self, zc: Any, t: str, n: str) -> None:
        from zeroconf.asyncio import AsyncServiceInfo

        self.live.add(n.lower())
        self.events.append((self.w.now_ms, "add", n))
        rec: Dict[str, Any] = {"t": self.w.now_ms, "name": n.lower(), "done": False}
        self.lookups.append(rec)

        async def look() -> None:
            info = AsyncServiceInfo(t, n)
            rec["ok"] = await info.async_request(zc, 3000)
            rec["port"], rec["server"], rec["text"] = info.port, info.server, info.text
            from zeroconf import IPVersion
            rec["addrs"] = sorted(set(info.addresses_by_version(IPVersion.All)))  # a set: the same address learnt with and without a scope id is one address
            rec["done"] = True

        self.w.spawn(look())

    def remove_service(self, zc: Any, t: str, n: str) -> None:
        self.live.discard(n.lower())
        self.events.append((self.w.now_ms, "rm", n))

    def update_service(self, zc: Any, t: str, n: str) -> None:
        pass


def goodbye_dropped_as_duplicate(w: World, log: "BrowserLog", inst: str) -> bool:
    """The shape of the open finding: after the browsing host last reported `inst` Added, a goodbye for it did arrive on
    one of that host's sockets, and every such goodbye was byte-identical to the datagram that socket had received just
    before (less than a second earlier) - which is when AsyncListener's per-socket duplicate guard discards it."""
    adds = [t for t, k, n in log.events if k == "add" and n.lower() == inst]
    if not adds:
        return False
    t_add = adds[-1]
    last_on_sock: Dict[int, Tuple[float, bytes]] = {}
    arrived, processed = 0, 0
    for (t, hname, data, src), sock in zip(w.net.arrivals, w.net.arrival_socks):
        if hname != log.owner.name:
            continue
        prev = last_on_sock.get(sock)
        dup = prev is not None and prev[1] == data and t - prev[0] < 1000
        # the guard remembers every datagram it sees, also those it discards
        last_on_sock[sock] = (t, data)
        if t < t_add:
            continue
        try:
            m = wire.decode(data)
        except wire.Reject:
            continue
        if m.is_response and any(r[0] == "PTR" and r[3] == 0 and str(r[4]).lower() == inst for r in m.records()):
            arrived += 1
            if not dup:
                processed += 1
    return arrived > 0 and processed == 0


class Scenario:
    """Timed operations + checkpoints; `registered` tracks (name -> (Svc, since, until))."""

    def __init__(self, name: str, variant: Dict[str, Any]) -> None:
        self.name, self.variant = name, variant

    def run(self, ch: Chooser) -> Tuple[Optional[Dict[str, Any]], str, int]:
        from zeroconf.asyncio import AsyncServiceBrowser

        dropped = [False]

        def policy(sent: Any, src: Any, dst: Any) -> List[int]:
            c = ch.choose(3 if dropped[0] else 4, f"net:{sent.host}->{dst.sock.host.name}")
            if c == 0:
                return [1000]
            if c == 1:
                return [100_000]
            if c == 2:
                return [1000, 50_000]
            dropped[0] = True
            return []

        def rand(a: int, b: int) -> int:
            return (a, b)[ch.choose(2, f"rand:{a}-{b}")]

        problems: List[str] = []
        with World(rand=rand) as w:
            w.net.policy = policy
            nh = 3 if self.name in ("three", "update-queued") else 2
            late = bool(self.variant.get("late"))
            socks = self.variant.get("socks", "single")
            A = w.new_zeroconf(name="A", mode=socks)
            C = w.new_zeroconf(name="C", mode=socks) if nh == 3 else None
            # the browsing host either hears the link from the start or joins (empty cache) when it starts browsing
            B = None if late else w.new_zeroconf(name="B", mode=socks)
            t0 = w.now_ms
            lookups: List[Dict[str, Any]] = []
            history: List[Tuple[str, Svc, float, Optional[float]]] = []  # name, desc, since, until
            infos: Dict[str, Any] = {}
            browsers: Dict[str, Tuple[BrowserLog, str]] = {}

            def start_browser(key: str, host: Any, type_: str) -> None:
                if host is None:
                    host = w.new_zeroconf(name="B", mode=socks)
                log = BrowserLog(w, host, lookups)
                # some variants browse a second type that nobody offers (a multi-type browser must not lose the first)
                spelled = type_
                if self.variant.get("browse_cased"):
                    # the application spells the type in other letter case than the offering host does (names are compared
                    # case-insensitively: these are the instances of its type)
                    spelled = type_.replace("_a.", "_A.").replace("_tcp", "_TCP")
                types = [spelled, "_unoffered._tcp.local."] if self.variant.get("multi") else spelled
                kw = {}
                if self.variant.get("qm"):
                    from zeroconf import DNSQuestionType
                    kw["question_type"] = DNSQuestionType.QM  # the application forces multicast questions from the start
                AsyncServiceBrowser(host.zc, types, listener=log, **kw)
                browsers[key] = (log, type_)

            def registered_at(t: float, type_: str) -> set:
                return {d.name.lower() for (n, d, since, until) in history
                        if d.type == type_ and since <= t and (until is None or until > t)}

            async def op_register(host: Any, key: str, desc: Svc) -> None:
                infos[key] = make_info(desc)
                task = await host.zc.async_register_service(infos[key])
                history.append((key, desc, w.now_ms, None))
                await task

            async def op_unregister(host: Any, key: str) -> None:
                for i, (n, d, since, until) in enumerate(history):
                    if n == key and until is None:
                        history[i] = (n, d, since, w.now_ms)
                task = await host.zc.async_unregister_service(infos[key])
                await task

            async def op_update(host: Any, key: str, desc: Svc) -> None:
                for i, (n, d, since, until) in enumerate(history):
                    if n == key and until is None:
                        history[i] = (n, d, since, w.now_ms)
                if self.variant.get("new_object"):
                    info = infos[key] = make_info(desc)  # the application describes the service anew
                else:
                    info = infos[key]  # ... or changes the object it registered
                    info.port = desc.port
                    if sorted(info.addresses) != sorted(desc.v4 + desc.v6):
                        info.addresses = desc.v4 + desc.v6
                task = await host.zc.async_update_service(info)
                history.append((key, desc, w.now_ms, None))
                await task

            async def op_reregister(host: Any, key: str, desc: Svc) -> None:
                # the application changes the object it registered and withdrew earlier, and registers it again
                info = infos[key]
                info.port = desc.port
                task = await host.zc.async_register_service(info)
                history.append((key, desc, w.now_ms, None))
                await task

            async def op_close(host: Any) -> None:
                now = w.now_ms
                for i, (n, d, since, until) in enumerate(history):
                    if until is None and n in host_services.get(host.name, ()):
                        history[i] = (n, d, since, now)
                await host.azc.async_close()

            host_services: Dict[str, List[str]] = {"A": ["S1", "S2"], "C": ["S3"]}
            checkpoints: List[float] = []
            ops: List[Tuple[float, Any]] = []
            v = self.variant
            if self.name == "churn":
                # an update (three announcements), a browsing host that joins 400 ms into them, and an unregister one second
                # later: the joiner's second start-up query finds the records freshly multicast, so its answer sits in the
                # one-second protection queue while the goodbyes go out
                ops.append((1000, lambda: w.spawn(op_register(A, "S1", S1))))
                newer = Svc(S1.type, S1.name, S1.server, S1.port + 1, S1.text, S1.v4, S1.v6)
                t_upd = v["update_at"]
                ops.append((t_upd, lambda: w.spawn(op_update(A, "S1", newer))))
                ops.append((t_upd + v["browse_at"], lambda: start_browser("B/a", B, TA)))
                ops.append((t_upd + v["unregister_after"], lambda: w.spawn(op_unregister(A, "S1"))))
                checkpoints.append(t_upd + v["unregister_after"] + 300 + SETTLE_MS)
            elif self.name == "idle":
                # the browser has been running with nothing to refresh for 40 s when the service appears; ninety minutes
                # later (pointer TTL: 75) the service is still registered and must still be reported
                ops.append((0, lambda: start_browser("B/a", B, TA)))
                ops.append((40_000, lambda: w.spawn(op_register(A, "S1", S1))))
                checkpoints.append(40_000 + 800 + SETTLE_MS)
                checkpoints.append(40_000 + 800 + SETTLE_MS + 5_400_000)
            elif self.name == "flap":
                # the service goes away and comes back within a few seconds; ninety minutes later it is still registered
                ops.append((0, lambda: start_browser("B/a", B, TA)))
                ops.append((1000, lambda: w.spawn(op_register(A, "S1", S1))))
                ops.append((3500, lambda: w.spawn(op_unregister(A, "S1"))))
                ops.append((5000, lambda: w.spawn(op_register(A, "S1", S1))))
                checkpoints.append(5000 + 800 + SETTLE_MS)
                checkpoints.append(5000 + 800 + SETTLE_MS + 5_400_000)
            elif self.name == "reregister":
                # a service is withdrawn and later registered again from the same description object with another port
                ops.append((v["browse_at"], lambda: start_browser("B/a", B, TA)))
                ops.append((1000, lambda: w.spawn(op_register(A, "S1", S1))))
                ops.append((5000, lambda: w.spawn(op_unregister(A, "S1"))))
                checkpoints.append(5000 + 300 + SETTLE_MS)
                newer = Svc(S1.type, S1.name, S1.server, S1.port + 1, S1.text, S1.v4, S1.v6)
                t_op = 5000 + 300 + SETTLE_MS + 200
                if v.get("readdress"):
                    # ... or from a new description with another address of the same host name (the withdrawal must have taken
                    # the old address record with it)
                    newer = Svc(S1.type, S1.name, S1.server, S1.port, S1.text, [bytes([10, 0, 0, 42])], S1.v6)
                    ops.append((t_op, lambda: w.spawn(op_register(A, "S1", newer))))
                else:
                    ops.append((t_op, lambda: w.spawn(op_reregister(A, "S1", newer))))
                checkpoints.append(t_op + 800 + SETTLE_MS)
            elif self.name == "stale-cache":
                # the browsing host has been on the link all along and heard the announcements; its browser only starts when
                # the cached pointer is past half (or most) of its 75 minutes, with nobody having refreshed it meanwhile
                ops.append((1000, lambda: w.spawn(op_register(A, "S1", S1))))
                ops.append((v["browse_at"], lambda: start_browser("B/a", B, TA)))
                checkpoints.append(v["browse_at"] + SETTLE_MS)
                t_op = v["browse_at"] + SETTLE_MS + 200
                ops.append((t_op, lambda: w.spawn(op_unregister(A, "S1"))))
                checkpoints.append(t_op + 300 + SETTLE_MS)
            elif self.name == "update-queued":
                # a browser asks by multicast right after the announcements, so the answer (with the SRV/TXT of that moment
                # as additionals) waits in the one-second protection queue; the service is updated meanwhile; a browser on a
                # third host, started after everything has been sent, must resolve what is advertised now
                assert C is not None
                base = S1 if not v.get("cased") else Svc(TA, "S1 Upper._a._tcp.local.", "H1.local.", 80, b"\x03a=b", S1.v4, [])
                ops.append((1000, lambda: w.spawn(op_register(A, "S1", base))))
                ops.append((v["browse_at"], lambda: start_browser("B/a", B, TA)))
                newer = Svc(base.type, base.name, base.server, base.port + 1, base.text,
                            [bytes([10, 0, 0, 77])] if v.get("addr") else base.v4, base.v6)
                ops.append((v["update_at"], lambda: w.spawn(op_update(A, "S1", newer))))
                ops.append((v["update_at"] + 3000, lambda: start_browser("C/a", C, TA)))
                checkpoints.append(v["update_at"] + 3000 + SETTLE_MS)
            elif self.name == "hurried":
                # the application registers the usual way - it does not wait for the task that sends announcements 2 and 3 - and
                # withdraws the service `gap` ms later, while that task is still at work
                async def hurried() -> None:
                    infos["S1"] = make_info(S1)
                    await host_a.zc.async_register_service(infos["S1"])
                    history.append(("S1", S1, w.now_ms, None))
                    if v["gap"]:
                        await asyncio.sleep(v["gap"] / 1000)
                    await op_unregister(host_a, "S1")

                host_a = A
                ops.append((v["browse_at"], lambda: start_browser("B/a", B, TA)))
                ops.append((1000, lambda: w.spawn(hurried())))
                checkpoints.append(1000 + 1000 + v["gap"] + 300 + SETTLE_MS)
            elif self.name == "flipflop":
                # a description is changed and at once changed back (the application corrects a mistake): hosts that heard both
                # hold the superseded SRV/TXT records next to the current ones (a cache-flush record leaves records younger
                # than a second alone) for their whole TTL; a browser started there later resolves from that cache
                ops.append((1000, lambda: w.spawn(op_register(A, "S1", S1))))
                newer = Svc(S1.type, S1.name, S1.server, S1.port + 1, b"\x03a=c", S1.v4, S1.v6)

                async def there_and_back() -> None:
                    await op_update(A, "S1", newer)
                    if v.get("pause_ms"):
                        await asyncio.sleep(v["pause_ms"] / 1000)
                    await op_update(A, "S1", S1)

                ops.append((20_000, lambda: w.spawn(there_and_back())))
                ops.append((v["browse_at"], lambda: start_browser("B/a", B, TA)))
                checkpoints.append(v["browse_at"] + SETTLE_MS)
            elif self.name == "leave":
                # the service is withdrawn (or its host closed) a few tens of milliseconds after a browser elsewhere started:
                # the reply to the browser's first query and the goodbyes are on the link together
                ops.append((1000, lambda: w.spawn(op_register(A, "S1", S1))))
                ops.append((v["browse_at"], lambda: start_browser("B/a", B, TA)))
                t_op = v["browse_at"] + v["after"]
                if v["how"] == "close":
                    ops.append((t_op, lambda: w.spawn(op_close(A))))
                else:
                    ops.append((t_op, lambda: w.spawn(op_unregister(A, "S1"))))
                checkpoints.append(t_op + 400 + SETTLE_MS)
            elif self.name in ("unregister", "update-close"):
                ops.append((v["browse_at"], lambda: start_browser("B/a", B, TA)))
                ops.append((1000, lambda: w.spawn(op_register(A, "S1", S1))))
                checkpoints.append(1000 + 800 + SETTLE_MS)
                t_op = 1000 + 800 + SETTLE_MS + 200
                if self.name == "update-close":
                    newer = Svc(S1.type, S1.name, S1.server, S1.port + 1, S1.text, S1.v4, S1.v6)
                    ops.append((t_op, lambda: w.spawn(op_update(A, "S1", newer))))
                    checkpoints.append(t_op + 700 + SETTLE_MS)
                    t_op += 700 + SETTLE_MS + 200
                    ops.append((t_op, lambda: w.spawn(op_close(A))))
                else:
                    ops.append((t_op, lambda: w.spawn(op_unregister(A, "S1"))))
                checkpoints.append(t_op + 300 + SETTLE_MS)
            else:
                assert C is not None
                ops.append((v["browse_at"] if late else 0, lambda: start_browser("B/a", B, TA)))
                ops.append((500 if late else v["browse_at"], lambda: start_browser("C/b", C, TB)))
                ops.append((1000, lambda: w.spawn(op_register(A, "S1", S1))))
                ops.append((2000, lambda: w.spawn(op_register(A, "S2", S2))))
                ops.append((2500, lambda: w.spawn(op_register(C, "S3", S3))))
                checkpoints.append(3300 + SETTLE_MS)
                t_op = 3300 + SETTLE_MS + 200
                ops.append((t_op, lambda: w.spawn(op_unregister(A, "S1"))))
                checkpoints.append(t_op + 300 + SETTLE_MS)
                if v.get("long"):
                    # ... and an hour and a half later (pointer TTLs are 75 minutes): what stayed registered must still
                    # be reported, i.e. the browsers kept refreshing it
                    checkpoints.append(t_op + 300 + SETTLE_MS + 5_400_000)
            events = sorted([(t, 0, k, fn) for k, (t, fn) in enumerate(ops)] +
                            [(t, 1, k, None) for k, t in enumerate(checkpoints)], key=lambda e: (e[0], e[1], e[2]))
            for t, kind, k, fn in events:
                w.advance_to_ms(t0 + t)
                if kind == 0:
                    fn()
                    w.settle()
                else:
                    for key, (log, type_) in browsers.items():
                        want = registered_at(w.now_ms, type_)
                        if log.live != want:
                            cls = "convergence"
                            if log.live - want and not (want - log.live) and all(
                                    goodbye_dropped_as_duplicate(w, log, x) for x in log.live - want):
                                cls = "goodbye-dropped-as-duplicate"
                            problems.append(f"{cls}: browser {key} reports {sorted(log.live)} {t / 1000:.1f} s in, "
                                            f"registered on the link: {sorted(want)}; callbacks "
                                            f"{[(round(tt - t0), kk, n) for tt, kk, n in log.events]}")
            # lookups made from add_service
            for rec in lookups:
                descs = [(d, since, until) for (n, d, since, until) in history if d.name.lower() == rec["name"]]
                stable = [d for (d, since, until) in descs if since <= rec["t"] and (until is None or until >= rec["t"] + 3100)]
                if not rec["done"]:
                    problems.append(f"lookup: lookup for {rec['name']} started {rec['t'] - t0:.0f} ms in never returned")
                    continue
                if stable:
                    d = stable[0]
                    if not rec["ok"]:
                        problems.append(f"lookup: lookup for {rec['name']} from add_service ({rec['t'] - t0:.0f} ms in) failed "
                                        f"although the service stayed registered")
                    else:
                        want = (d.port, d.server, d.text, sorted(d.v4 + d.v6))
                        got = (rec["port"], rec["server"], rec["text"], rec["addrs"])
                        if got != want:
                            problems.append(f"lookup: lookup for {rec['name']} resolved {got}, advertised {want}")
            excs = w.exceptions()
            if excs:
                problems.append(f"exception in the event loop: {excs[0]}")
            obs = digest(([(round(s.t_us / 1000 - t0, 3), s.host, s.dest[:2], s.data) for s in w.net.trace],
                          [[(round(t - t0, 3), k, n) for t, k, n in log.events] for log, _ in browsers.values()]))
            trans = len(w.net.trace)
        verdict = None
        if problems:
            # the open finding's class only names the verdict when nothing else is wrong with this execution
            problems.sort(key=lambda s: s.startswith("goodbye-dropped-as-duplicate"))
            verdict = {"what": f"C07 {self.name} {self.variant} deviations "
                               f"{[(i, l) for i, (n, l, c) in enumerate(ch.log) if c]}: {problems[0][:700]}",
                       "replay": {"scenario_name": self.name, "variant": self.variant, "problems": problems[:4]},
                       "signature": {"check": problems[0].split(":")[0]}}
        return verdict, obs, trans


def plan(tier: str) -> List[Tuple[str, Dict[str, Any], int]]:
    if tier == "quick":
        return [(n, v, min(b, 2)) for n, v, b in plan("thorough")]
    return [("unregister", {"browse_at": 0}, 3), ("unregister", {"browse_at": 1200, "late": True}, 3),
            ("unregister", {"browse_at": 5000, "late": True}, 3), ("unregister", {"browse_at": 5000}, 2),
            ("unregister", {"browse_at": 5000, "multi": True}, 2), ("unregister", {"browse_at": 0, "multi": True}, 1),
            ("update-close", {"browse_at": 0}, 2), ("update-close", {"browse_at": 1200, "late": True}, 2),
            ("update-close", {"browse_at": 5000, "late": True}, 3),
            ("update-close", {"browse_at": 20500, "late": True}, 2),  # the browsing host joins after the update
            ("three", {"browse_at": 500}, 2), ("three", {"browse_at": 6000, "late": True}, 2),
            ("churn", {"update_at": 19500, "browse_at": 400, "unregister_after": 1500, "late": True}, 2),
            ("churn", {"update_at": 19500, "browse_at": 100, "unregister_after": 1150, "late": True}, 2),
            ("churn", {"update_at": 19500, "browse_at": 400, "unregister_after": 1500}, 1),
            ("leave", {"browse_at": 5000, "after": 30, "how": "unregister", "late": True}, 2),
            ("leave", {"browse_at": 5000, "after": 30, "how": "close", "late": True}, 2),
            ("leave", {"browse_at": 5000, "after": 130, "how": "close"}, 2),
            # a joiner asking by multicast right after the third announcement: its answer is held by the one-second protection
            ("leave", {"browse_at": 1850, "after": 450, "how": "unregister", "late": True, "qm": True}, 2),
            ("leave", {"browse_at": 1850, "after": 450, "how": "close", "late": True, "qm": True}, 1),
            ("leave", {"browse_at": 5000, "after": 30, "how": "unregister", "late": True, "socks": "dual"}, 2),
            ("leave", {"browse_at": 5000, "after": 130, "how": "close", "late": True, "socks": "dual"}, 2),
            ("idle", {"browse_at": 0}, 1), ("flap", {"browse_at": 0}, 1),
            ("hurried", {"browse_at": 0, "gap": 0}, 2), ("hurried", {"browse_at": 0, "gap": 30}, 2),
            ("hurried", {"browse_at": 0, "gap": 230}, 2), ("hurried", {"browse_at": 0, "gap": 260}, 2),
            ("flipflop", {"browse_at": 23_000, "new_object": True}, 1), ("flipflop", {"browse_at": 23_000}, 1),
            ("flipflop", {"browse_at": 60_000, "new_object": True, "pause_ms": 400}, 1),
            ("unregister", {"browse_at": 0, "browse_cased": True}, 1), ("unregister", {"browse_at": 5000, "browse_cased": True}, 1),
            ("unregister", {"browse_at": 5000, "late": True, "browse_cased": True}, 1),
            ("reregister", {"browse_at": 0}, 1), ("reregister", {"browse_at": 30_000, "late": True}, 1),
            ("reregister", {"browse_at": 0, "readdress": True}, 2),
            ("update-queued", {"browse_at": 1850, "update_at": 2000, "qm": True}, 1),
            ("update-queued", {"browse_at": 1850, "update_at": 2000, "qm": True, "late": True}, 2),
            ("update-queued", {"browse_at": 1850, "update_at": 2600, "qm": True, "late": True}, 1),
            ("update-queued", {"browse_at": 1850, "update_at": 2000, "qm": True, "late": True, "cased": True}, 1),
            # (an address can only be replaced more than a second after it was last announced: a cache-flush record leaves
            # younger records of its name alone, RFC 6762 s.10.2 - so these updates come 900 ms after the last announcement
            # reached the caches, which is still before the protected answer leaves)
            ("update-queued", {"browse_at": 1850, "update_at": 2700, "qm": True, "late": True, "addr": True}, 1),
            ("update-queued", {"browse_at": 1850, "update_at": 2700, "qm": True, "late": True, "new_object": True, "addr": True}, 1),
            ("update-queued", {"browse_at": 1850, "update_at": 2000, "qm": True, "late": True, "new_object": True, "cased": True}, 1),
            ("stale-cache", {"browse_at": 2_400_000}, 2), ("stale-cache", {"browse_at": 3_900_000}, 1),
            ("stale-cache", {"browse_at": 2_400_000, "multi": True}, 1),
            # ... or when it has just run out and the periodic purge has not come by yet
            ("stale-cache", {"browse_at": 4_502_000}, 1), ("stale-cache", {"browse_at": 4_507_000}, 1),
            ("stale-cache", {"browse_at": 4_512_000}, 1),
            ("three", {"browse_at": 500, "long": True}, 1), ("three", {"browse_at": 6000, "late": True, "long": True}, 1),
            # the same link with IPv6-only hosts, and with hosts that send on an IPv4 and an IPv6 socket (every datagram twice)
            ("unregister", {"browse_at": 0, "socks": "single6"}, 2), ("update-close", {"browse_at": 5000, "late": True, "socks": "single6"}, 2),
            ("unregister", {"browse_at": 1200, "late": True, "socks": "dual"}, 1), ("three", {"browse_at": 500, "socks": "dual"}, 1)]


def run(tier: str, seed: int) -> Tuple[Stats, str, List[str], Dict[str, Any]]:
    stats = Stats()
    completed = {}
    for name, variant, bound in plan(tier):
        sc = Scenario(name, variant)
        a = sc.run(Chooser([]))
        b = sc.run(Chooser([]))
        if a[1] != b[1]:
            raise HarnessError(f"C07 scenario {name} is not deterministic")
        if a[0] is None and a[2] < 8:
            raise HarnessError(f"C07 scenario {name} is vacuous: {a[2]} datagrams in the default execution")
        label = f"{name}/{variant['browse_at']}{'/late' if variant.get('late') else ''}{'/multi' if variant.get('multi') else ''}{'/' + variant['socks'] if variant.get('socks') else ''}{'/' + variant['how'] + '+' + str(variant['after']) if name == 'leave' else ''}{'/qm' if variant.get('qm') else ''}{'/long' if variant.get('long') else ''}{'/browse_cased' if variant.get('browse_cased') else ''}" + (
            f"/unreg+{variant['unregister_after']}" if name == "churn" else "") + "".join(
            f"/{k}={variant[k]}" if not isinstance(variant[k], bool) else f"/{k}" for k in ("update_at", "cased", "addr", "new_object")
            if k in variant and name in ("update-queued", "flipflop")) + (f"/gap={variant['gap']}" if name == "hurried" else "") + ("/readdress" if variant.get("readdress") else "")
        done = explore_deviations(sc.run, bound, stats, label,
                                  max_execs=None if tier == "quick" else 1_500_000)
        completed[label] = done
    stats.states = len(stats.outcomes)
    stats.notes["deviation_bound_completed"] = completed
    rule = ("per scenario: all executions with at most B non-default choices (delivery: 1 ms default | 100 ms | duplicate | "
            "drop once; jitter draw: low default | high); outcomes = distinct (network trace, callback log) pairs")
    assumptions = [
        "API calls on one instance are sequential and each awaits the task the previous one returned",
        f"settling bound {SETTLE_MS} ms after the last change before a browser's live set is compared",
        "a lookup started from add_service must succeed only if the service stays registered and unchanged for the "
        "3 s the lookup may take",
        "hosts are created up front (their caches hear the link from the start); browsers start at the menu instants",
    ]
    return stats, rule, assumptions, {"plan": [[n, v, b] for n, v, b in plan(tier)], "completed": completed}


def replay(data: Dict[str, Any]) -> int:
    sc = Scenario(data["scenario_name"], dict(data["variant"]))
    ch = Chooser(list(data["choices"]))
    v, o1, _ = sc.run(ch)
    if sc.run(Chooser(list(data["choices"])))[1] != o1:
        print("HARNESS-ERROR: replay is not deterministic")
        return 2
    print("deviations:", [(i, l, c) for i, (n, l, c) in enumerate(ch.log) if c])
    if v:
        print("VIOLATION reproduced:", v["what"])
        for x in v["replay"]["problems"]:
            print("   ", x)
        return 1
    print("no violation on this tree")
    return 0
