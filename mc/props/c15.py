"""C15 - a running instance survives any datagram stream (E1 + E3)."""
from __future__ import annotations

import itertools
import struct
from typing import Any, Dict, Iterator, List, Optional, Tuple

from .. import wire
from ..explore import Stats, Violation, WatchdogTimeout, digest, guarded_problem, pmap_iter, watchdog
from ..models.responder_model import Svc
from ..scen import Decoded, RandPolicy, make_info, register
from ..world import HarnessError, World, set_debug_logging
from . import decoder as D

ID = "C15"
TECHNIQUE = ("bounded-exhaustive delivery of adversarial datagram corpora (all single edits of seed messages, all "
             "name-compression graphs on <= n names, parametric chain/stack families, oversize datagrams, every "
             "'echo hazard' label of length 1..63 over 5 fill bytes in legacy-unicast queries) to a busy real instance: "
             "a fresh world per datagram from mDNS and non-mDNS ports and IPv4/IPv6 sources, all ordered pairs of class "
             "representatives, and streams of 50 datagrams through one world; oracle = event-loop exception handler + "
             "canary query answered + canary announcement reaches the browser")

TA, TB = "_a._tcp.local.", "_b._tcp.local."
S1 = Svc(TA, "s1._a._tcp.local.", "h1.local.", 80, b"\x03a=b", [bytes([10, 0, 0, 1])], [])
S2 = Svc(TB, "s2._b._tcp.local.", "h2.local.", 81, b"", [bytes([10, 0, 0, 2])], [bytes.fromhex("fe800000000000000000000000000002")])
CANARY_Q = wire.query([("Q", TA, 12, 1)], id_=0xCA7A)
CANARY_INST = "canary._c._tcp.local."
CANARY_ANN = wire.encode(0xCA7B, 0x8400, (), [("PTR", "_c._tcp.local.", 1, 4500, CANARY_INST)])
SOURCES: List[tuple] = [("10.0.0.99", 5353), ("10.0.0.99", 1234), ("fe80::99", 5353, 0, 3), ("fe80::99", 40000, 0, 3)]


def echo_hazards() -> Iterator[bytes]:
    """Legacy-unicast queries for a registered name plus a question whose label decodes/re-encodes differently."""
    fills = [b"\xff", b"\xc3", b".", b"\x00", b"a"]
    base_q = wire.labels_of(TA)
    for ln in range(1, 64):
        for f in fills:
            lab = f * ln
            for suffix in ([b"local"], [b"_a", b"_tcp", b"local"]):
                name = b"".join(bytes([len(l)]) + l for l in [lab] + suffix) + b"\x00"
                first = b"".join(bytes([len(l)]) + l for l in base_q) + b"\x00" + struct.pack(">HH", 12, 1)
                yield D.header(0, 2, 0, 0, 0, id_=0x4242) + first + name + struct.pack(">HH", 12, 1)
        # mixes: valid prefix then bytes that grow when replaced
        lab = b"a" * (ln // 2) + b"\xff" * (ln - ln // 2)
        name = bytes([ln]) + lab + b"\x05local\x00"
        first = b"".join(bytes([len(l)]) + l for l in base_q) + b"\x00" + struct.pack(">HH", 12, 1)
        yield D.header(0, 2, 0, 0, 0, id_=0x4243) + first + name + struct.pack(">HH", 12, 0x8001)
    # a question name of valid UTF-8 that exceeds 255 octets, from a legacy port (echoed) and from 5353
    e63 = "é".encode() * 31 + b"a"
    longq = b"".join(bytes([len(l)]) + l for l in [e63, e63, e63, e63, b"local"]) + b"\x00"
    first = b"".join(bytes([len(l)]) + l for l in base_q) + b"\x00" + struct.pack(">HH", 12, 1)
    yield D.header(0, 2, 0, 0, 0, id_=0x4244) + first + longq + struct.pack(">HH", 12, 1)
    yield D.header(0, 1, 0, 0, 0, id_=0x4245) + longq + struct.pack(">HH", 255, 0x8001)
    # the hazard as the *only* question, and in a question for a registered instance
    for ln in (21, 22, 32, 63):
        name = bytes([ln]) + b"\xff" * ln + b"\x02_a\x04_tcp\x05local\x00"
        yield D.header(0, 1, 0, 0, 0, id_=1) + name + struct.pack(">HH", 255, 1)


def response_hazards() -> Iterator[bytes]:
    """Responses whose *rdata* names (pointer alias, SRV target, NSEC next name) or owner names carry a label that
    decodes with replacement characters and no longer fits 63 bytes when encoded again: the record is cached and later
    re-encoded as a known answer by the browser's or the lookup's own queries."""
    def lab(b: bytes) -> bytes:
        return bytes([len(b)]) + b

    def nm(*labels: bytes) -> bytes:
        return b"".join(lab(l) for l in labels) + b"\x00"

    def rr(owner: bytes, type_: int, class_: int, ttl: int, rdata: bytes) -> bytes:
        return owner + struct.pack(">HHIH", type_, class_, ttl, len(rdata)) + rdata

    for ln in (1, 2, 20, 21, 22, 23, 31, 32, 62, 63):
        for f in (b"\xff", b"\xc3", b"\xe2\x82"):
            h = (f * ln)[:ln]
            for typ in (b"_b", b"_c"):
                alias = nm(h, typ, b"_tcp", b"local")
                yield D.header(0x8400, 0, 1, 0, 0) + rr(nm(typ, b"_tcp", b"local"), 12, 1, 4500, alias)
            yield D.header(0x8400, 0, 1, 0, 0) + rr(nm(b"pending", b"_c", b"_tcp", b"local"), 33, 0x8001, 120,
                                                    struct.pack(">HHH", 0, 0, 80) + nm(h, b"local"))
            yield D.header(0x8400, 0, 2, 0, 0) + rr(nm(b"_c", b"_tcp", b"local"), 12, 1, 4500, nm(b"pending", b"_c", b"_tcp", b"local")) \
                + rr(nm(b"pending", b"_c", b"_tcp", b"local"), 33, 0x8001, 120, struct.pack(">HHH", 0, 0, 80) + nm(h, b"local"))
            yield D.header(0x8400, 0, 1, 0, 0) + rr(nm(h, b"local"), 1, 0x8001, 120, bytes([10, 0, 0, 77]))
            yield D.header(0x8400, 0, 1, 0, 0) + rr(nm(b"h1", b"local"), 47, 0x8001, 120, nm(h, b"local") + b"\x00\x01\x40")
    # labels that contain the separator itself: the decoded name text has an empty label in it (`evil.._c._tcp.local.`)
    for h in (b".", b"..", b"evil.", b".evil", b"a..b", b"a.b", b"." * 63):
        for typ in (b"_b", b"_c"):
            yield D.header(0x8400, 0, 1, 0, 0) + rr(nm(typ, b"_tcp", b"local"), 12, 1, 4500, nm(h, typ, b"_tcp", b"local"))
        yield D.header(0x8400, 0, 2, 0, 0) + rr(nm(b"_c", b"_tcp", b"local"), 12, 1, 4500, nm(b"pending", b"_c", b"_tcp", b"local")) \
            + rr(nm(b"pending", b"_c", b"_tcp", b"local"), 33, 0x8001, 120, struct.pack(">HHH", 0, 0, 80) + nm(h, b"local"))
    # labels mixing invalid bytes (3 bytes each once replaced) with valid 2- and 3-byte characters, re-encoded length around 63/64
    for k in range(0, 22):
        for ch, w_ in (("é".encode(), 2), ("€".encode(), 3)):
            for m in range(1, 32):
                wire_len, re_len = k + w_ * m, 3 * k + w_ * m
                if wire_len <= 63 and 61 <= re_len <= 66:
                    h = b"\xff" * k + ch * m
                    yield D.header(0x8400, 0, 1, 0, 0) + rr(nm(b"_b", b"_tcp", b"local"), 12, 1, 4500, nm(h, b"_b", b"_tcp", b"local"))
    # valid UTF-8, every label within 63 bytes, but the whole name beyond the 255 octets a name may take on the wire (the
    # decoder counts characters): again a name that cannot be sent back
    e63 = "é".encode() * 31 + b"a"
    for typ in (b"_b", b"_c"):
        yield D.header(0x8400, 0, 1, 0, 0) + rr(nm(typ, b"_tcp", b"local"), 12, 1, 4500, nm(e63, e63, e63, e63, typ, b"_tcp", b"local"))
    yield D.header(0x8400, 0, 2, 0, 0) + rr(nm(b"_c", b"_tcp", b"local"), 12, 1, 4500, nm(b"pending", b"_c", b"_tcp", b"local")) \
        + rr(nm(b"pending", b"_c", b"_tcp", b"local"), 33, 0x8001, 120, struct.pack(">HHH", 0, 0, 80) + nm(e63, e63, e63, e63, b"local"))


def recased() -> Iterator[bytes]:
    """Valid announcements that spell a browsed type in other letter case than the application did (names are compared
    case-insensitively everywhere else: the cache files them under the browsed type)."""
    for owner in ("_C._TCP.local.", "_c._tcp.LOCAL.", "_C._tcp.local."):
        for inst in (CANARY_INST, "Canary._C._tcp.local.", "other._c._tcp.local."):
            for ttl in (4500, 120):
                yield wire.response([("PTR", owner, 1, ttl, inst)])
                yield wire.response([("PTR", owner, 1, ttl, inst), ("SRV", inst, 0x8001, 120, 0, 0, 80, "hc.local."),
                                     ("TXT", inst, 0x8001, 4500, b""), ("A", "hc.local.", 0x8001, 120, bytes([10, 0, 0, 66]))])


def oversize() -> Iterator[bytes]:
    q = wire.query([("Q", TA, 12, 1)], id_=5)
    r = wire.response([("PTR", TB, 1, 4500, "big._b._tcp.local.")])
    for total in (8967, 9000, 65507):
        yield q + b"\x00" * (total - len(q))
        yield r + b"\x00" * (total - len(r))
    for total in (8965, 8966):
        yield r + b"\x00" * (total - len(r))


def echoed_fields() -> Iterator[bytes]:
    """Well-formed queries whose 16-bit fields come back in the reply (transaction id; type and class of an echoed question;
    the number of echoed questions) swept over small values and the powers of two: every value the encoder's short-integer
    paths can meet."""
    values = list(range(0, 260)) + [511, 512, 513, 1023, 1024, 4095, 4096, 32767, 32768, 65534, 65535]
    for v in values:
        yield wire.query([("Q", TA, 12, 1)], id_=v)
    for v in values[1:]:
        yield wire.query([("Q", TA, 12, 1), ("Q", "other.local.", v, 1)], id_=7)
        yield wire.query([("Q", TA, 12, 1), ("Q", "other.local.", 1, v)], id_=7)
    for n in (2, 3, 127, 128, 129, 255, 256, 257):
        yield wire.query([("Q", TA, 12, 1)] + [("Q", f"n{i}.local.", 1, 1) for i in range(n - 1)], id_=9)


def corpus(tier: str) -> List[Tuple[str, bytes]]:
    seeds = D.seeds()
    out: List[Tuple[str, bytes]] = []
    out += [("echoed", d) for d in echoed_fields()]
    out += [("hazard", d) for d in echo_hazards()]
    out += [("rhazard", d) for d in response_hazards()]
    out += [("oversize", d) for d in oversize()]
    out += [("recased", d) for d in recased()]
    out += [("family", d) for d in D.families("quick")]
    nseeds = 3 if tier == "quick" else len(seeds)
    for s in seeds[:nseeds]:
        out += [("mutation", d) for d in D.mutations(s)]
    out += [("graph", d) for d in itertools.chain(D.graphs(1, (0, 1, 2)), D.graphs(2, (0, 1, 2)), D.graphs(3, (0, 1)))]
    if tier != "quick":
        out += [("graph4", d) for d in D.graphs(4, (0, 1))]
        out += [("body", d) for d in D.bodies(D.ALPHA11, 3, D.HEADERS)]
    return out


class Lst:
    """Browser listener that, like an application would, looks every reported instance up."""

    def __init__(self, w: Optional[World] = None) -> None:
        self.added: List[str] = []
        self.live: set = set()
        self.w = w
        self.lookup_errors: List[str] = []

    def add_service(self, zc: Any, t: str, n: str) -> None:
        self.added.append(n)
        self.live.add(n.lower())
        if self.w is None:
            return
        from zeroconf import BadTypeInNameException
        from zeroconf.asyncio import AsyncServiceInfo

        async def look() -> None:
            try:
                info = AsyncServiceInfo(t, n)
            except BadTypeInNameException:
                return  # the documented refusal of a name that is not a service instance name
            try:
                await info.async_request(zc, 1500)
            except Exception as e:  # noqa: BLE001
                self.lookup_errors.append(f"lookup of {n!r} raised {type(e).__name__}: {e}")

        self.w.spawn(look())
    def remove_service(self, zc: Any, t: str, n: str) -> None: self.live.discard(n.lower())
    def update_service(self, zc: Any, t: str, n: str) -> None: pass


def busy_world(w: World) -> Tuple[Any, Lst]:
    from zeroconf.asyncio import AsyncServiceBrowser, AsyncServiceInfo

    host = w.new_zeroconf(mode="dual")
    register(w, host, make_info(S1))
    register(w, host, make_info(S2))
    lst = Lst(w)
    AsyncServiceBrowser(host.zc, ["_c._tcp.local.", TB], listener=lst)
    w.advance(1500)

    async def lookup() -> None:
        await AsyncServiceInfo("_c._tcp.local.", "pending._c._tcp.local.").async_request(host.zc, 3000)

    w.lookup_task = w.spawn(lookup())
    w.advance(50)
    w.net.inject(host, wire.query([("Q", TA, 12, 1)], id_=0x7C, tc=True), ("10.0.0.98", 5353))  # deferred TC query
    w.advance(100)
    return host, lst


def deliver(w: World, host: Any, data: bytes, src: tuple) -> None:
    w.net.inject(host, data, src, role="listen" if len(src) == 2 and src[1] == 5353 else "respond")
    w.settle()


def canary(w: World, host: Any, lst: Lst, problems: List[str]) -> None:
    w.advance(1600)  # past every pending aggregation / protection / TC timer of the busy state
    n0 = len(w.net.trace)
    deliver(w, host, CANARY_Q, ("10.0.0.97", 5353))
    deliver(w, host, CANARY_ANN, ("10.0.0.96", 5353))
    w.advance(2000)
    answered = False
    for s in w.net.trace[n0:]:
        if s.host == host.name and s.multicast:
            try:
                m = wire.decode(s.data)
            except wire.Reject:
                continue
            if m.is_response and any(r[0] == "PTR" and r[4].lower() == S1.name for r in m.answers):
                answered = True
    if not answered:
        problems.append("canary: a well-formed query sent afterwards was not answered within 2 s")
    if CANARY_INST not in [n.lower() for n in lst.added]:  # (an instance reported before in other letter case is the same one)
        problems.append("canary: an announcement sent afterwards did not reach the browser")
    elif CANARY_INST not in lst.live:
        problems.append("canary: after the announcement sent afterwards the browser's last word on the instance is Removed")
    if lst.lookup_errors:
        problems.append(f"exception: {lst.lookup_errors[0][:300]}")


def cache_fingerprint(zc: Any) -> Any:
    return sorted((n, len(zc.cache.entries_with_name(n))) for n in zc.cache.names())


def run_one(item: Tuple[str, bytes, int]) -> Tuple[Optional[str], str]:
    """Fresh busy world, one datagram from one source."""
    kind, data, si = item
    problems: List[str] = []
    src = SOURCES[si]
    with World(rand=RandPolicy.const(0.0), debug_log=(si == 3)) as w:
        host, lst = busy_world(w)
        n0 = len(w.net.trace)
        before = cache_fingerprint(host.zc) if kind == "oversize" else None
        deliver(w, host, data, src)
        if kind == "oversize" and len(data) > 8966:
            w.advance(1300)
            mine = [s for s in w.net.trace[n0:] if s.host == host.name and
                    (not s.multicast or any(r[4].lower() == S1.name for r in wire.decode(s.data).answers if r[0] == "PTR"))]
            # the deferred TC query of the busy state is answered in this window; anything else is a reply to the oversize
            replies = [s for s in w.net.trace[n0:] if s.host == host.name and not s.multicast]
            if replies:
                problems.append(f"oversize: a {len(data)}-byte datagram was answered")
            if cache_fingerprint(host.zc) != before:
                problems.append(f"oversize: a {len(data)}-byte datagram changed the cache")
        excs = w.exceptions()
        if excs:
            problems.append(f"exception: {excs[0][:300]}")
        canary(w, host, lst, problems)
        excs2 = w.exceptions()
        if len(excs2) > len(excs):
            problems.append(f"exception: {excs2[-1][:300]}")
    return (problems[0] if problems else None), f"{kind}:{'bad' if problems else 'ok'}"


S3 = Svc(TA, "s3._a._tcp.local.", "h3.local.", 82, b"", [bytes([10, 0, 0, 3])], [])
P = "pending._c._tcp.local."
CANCEL_DATA: List[bytes] = [
    wire.response([("SRV", P, 0x8001, 120, 0, 0, 80, "ph.local.")]),
    wire.response([("TXT", P, 0x8001, 4500, b"\x03k=v")]),
    wire.response([("A", "ph.local.", 0x8001, 120, bytes([10, 0, 0, 50]))]),
    wire.response([("PTR", "_c._tcp.local.", 1, 4500, P), ("SRV", P, 0x8001, 120, 0, 0, 80, "ph.local."),
                   ("TXT", P, 0x8001, 4500, b""), ("A", "ph.local.", 0x8001, 120, bytes([10, 0, 0, 50]))]),
    wire.response([("PTR", TB, 1, 4500, "new._b._tcp.local.")]),
    wire.response([("PTR", TB, 1, 0, "new._b._tcp.local.")]),
    wire.query([("Q", TA, 12, 1)], id_=9),
]


def run_cancel(item: Tuple[int, str, str, int]) -> Tuple[Optional[str], str]:
    """A waiter of the busy instance (the lookup in progress, or a registration between its probes) is cancelled in the
    very loop iteration in which a datagram arrives (before / after it), or `gap` iterations earlier."""
    di, target, order, gap = item
    problems: List[str] = []
    with World(rand=RandPolicy.const(0.0)) as w:
        host, lst = busy_world(w)
        task = w.lookup_task
        if target == "registration":
            task = w.spawn(host.zc.async_register_service(make_info(S3)))
            w.advance(100)  # between the first and the second probe
        if task.done():
            raise HarnessError("the waiter to cancel has already finished")
        if order == "cancel-first":
            task.cancel()
            for _ in range(gap):
                w.loop.run_iteration()
            w.net.inject(host, CANCEL_DATA[di], ("10.0.0.99", 5353), role="listen")
        else:
            w.net.inject(host, CANCEL_DATA[di], ("10.0.0.99", 5353), role="listen")
            for _ in range(gap):
                w.loop.run_iteration()
            task.cancel()
        w.settle()
        excs = w.exceptions()
        if excs:
            problems.append(f"exception: {excs[0][:300]}")
        if not task.cancelled() and not task.done():
            raise HarnessError("cancelled waiter still pending")
        canary(w, host, lst, problems)
        excs2 = w.exceptions()
        if len(excs2) > len(excs):
            problems.append(f"exception: {excs2[-1][:300]}")
    return (problems[0] if problems else None), f"cancel:{'bad' if problems else 'ok'}"


def trains() -> List[List[bytes]]:
    """Truncated-query trains from one source in every order: a known-answer continuation (TC set or not, no question at
    all) before / after / without the datagram that carries the questions."""
    ka = [("PTR", TA, 1, 4500, S1.name)]
    cont_tc = wire.query([], answers=ka, tc=True, id_=0x51)
    cont_last = wire.query([], answers=ka, id_=0x52)
    q_tc = wire.query([("Q", TA, 12, 1)], answers=[("PTR", TA, 1, 4500, "other._a._tcp.local.")], tc=True, id_=0x53)
    q_plain = wire.query([("Q", TA, 12, 1)], id_=0x54)
    q_two = wire.query([("Q", TA, 12, 1), ("Q", S1.name, 33, 1)], id_=0x55)
    q_srv = wire.query([("Q", S1.name, 33, 1)], id_=0x56)
    empty_tc = wire.query([], tc=True, id_=0x57)
    out = []
    for first in (cont_tc, empty_tc, cont_last):
        for second in (q_plain, q_two, q_srv, q_tc, cont_tc, cont_last):
            out.append([first, second])
            out.append([second, first])
            out.append([first, first, second])
    out += [[cont_tc], [empty_tc], [cont_last], [q_tc, cont_tc, cont_last], [cont_tc, q_tc, cont_last]]
    return out


def run_train(item: Tuple[int, int, int]) -> Tuple[Optional[str], str]:
    ti, si, gap = item
    problems: List[str] = []
    with World(rand=RandPolicy.const(0.0)) as w:
        host, lst = busy_world(w)
        w.advance(600)  # the deferred TC query of the busy world has been answered
        for data in trains()[ti]:
            deliver(w, host, data, SOURCES[si])
            w.advance(gap)
        w.advance(700)
        excs = w.exceptions()
        if excs:
            problems.append(f"exception: {excs[0][:300]}")
        canary(w, host, lst, problems)
        excs2 = w.exceptions()
        if len(excs2) > len(excs):
            problems.append(f"exception: {excs2[-1][:300]}")
    return (problems[0] if problems else None), f"train:{'bad' if problems else 'ok'}"


# valid traffic: five well-formed queries on the timing grid that leaves emptied answer groups at the head of the
# aggregation queue (the same answer asked again while its first batch is held to the 500 ms deadline), then another question
VALID_LAST = {"ptrB": [("Q", TB, 12, 1)], "ptr+txt": [("Q", TA, 12, 1), ("Q", S1.name, 16, 1)]}


def valid_schedules() -> List[Tuple[Tuple[int, int, int, int], str, Tuple[float, ...]]]:
    out = []
    for g1, g2, g4 in itertools.product((0, 1), (390, 450, 499), (400, 450, 499, 520)):
        for js in itertools.product((0.0, 1.0), repeat=5):
            for last in VALID_LAST:
                out.append(((g1, g2, 0, g4), last, js))
    return out


def run_valid(item: Tuple[Tuple[int, int, int, int], str, Tuple[float, ...]]) -> Tuple[Optional[str], str]:
    gaps, last, js = item
    problems: List[str] = []
    with World(rand=RandPolicy.seq([0.0] * 40, 0.0)) as w:
        host, lst = busy_world(w)
        w.advance(2600)  # the busy state has drained: what follows is ordinary traffic on an idle responder
        w.rand = RandPolicy.seq(list(js), js[-1])
        for k in range(5):
            qs = [("Q", TA, 12, 1)] if k < 4 else VALID_LAST[last]
            deliver(w, host, wire.query(qs, id_=0x60 + k), ("10.0.0.95", 5353))
            if k < 4:
                w.advance(gaps[k])
        w.advance(700)
        excs = w.exceptions()
        if excs:
            problems.append(f"exception: {excs[0][:300]}")
        canary(w, host, lst, problems)
    return (problems[0] if problems else None), f"valid:{'bad' if problems else 'ok'}"


REENTRANT_RECORDS = {"a": ("A", "hx.local.", 0x8001, 2, bytes([10, 0, 0, 61])),
                     "ptr": ("PTR", "_c._tcp.local.", 1, 2, "short._c._tcp.local."),
                     "srv": ("SRV", "short._c._tcp.local.", 0x8001, 2, 0, 0, 80, "hx.local."),
                     "txt": ("TXT", "short._c._tcp.local.", 0x8001, 2, b"\x01z")}


def reentrant_points() -> List[Tuple[str, int, str, str]]:
    return [(kind, age, second, when) for kind in REENTRANT_RECORDS for age in (500, 1999, 2000, 2001, 5000, 11000)
            for second in ("goodbye", "refresh", "other") for when in ("first-round", "complete")]


def run_reentrant(item: Tuple[str, int, str, str]) -> Tuple[Optional[str], str]:
    """An application listener that reacts to a record update by starting to listen for something else (from inside the
    first-round callback or from the completion callback) while short-lived records come, run out and are withdrawn or
    refreshed - valid traffic, valid use of the API."""
    kind, age, second, when = item
    problems: List[str] = []
    with World(rand=RandPolicy.const(0.0)) as w:
        from zeroconf import DNSQuestion, RecordUpdateListener
        host, lst = busy_world(w)
        zc = host.zc

        class Other(RecordUpdateListener):
            def async_update_records(self, zc_: Any, now: float, records: Any) -> None: pass
            def async_update_records_complete(self) -> None: pass

        other = Other()

        class Reacting(RecordUpdateListener):
            def async_update_records(self, zc_: Any, now: float, records: Any) -> None:
                if when == "first-round":
                    zc.async_add_listener(other, DNSQuestion("_zz._tcp.local.", 12, 1))

            def async_update_records_complete(self) -> None:
                if when == "complete":
                    zc.async_add_listener(other, DNSQuestion("_zz._tcp.local.", 12, 1))

        zc.async_add_listener(Reacting(), None)
        rec = REENTRANT_RECORDS[kind]
        # (the pointer floor lengthens a pointer's two seconds; the others run out after two)
        deliver(w, host, wire.response([rec]), ("10.0.0.94", 5353))
        w.advance(age)
        nxt = {"goodbye": rec[:3] + (0,) + rec[4:], "refresh": rec[:3] + (120,) + rec[4:],
               "other": ("A", "hy.local.", 0x8001, 120, bytes([10, 0, 0, 62]))}[second]
        deliver(w, host, wire.response([nxt]), ("10.0.0.94", 5353))
        w.advance(500)
        excs = w.exceptions()
        if excs:
            problems.append(f"exception: {excs[0][:300]}")
        canary(w, host, lst, problems)
    return (problems[0] if problems else None), f"reentrant:{'bad' if problems else 'ok'}"


def self_datagrams() -> List[bytes]:
    """Valid traffic about the canary instance itself (it was there before, goes, comes back - in separate datagrams or in
    one), none of them byte-identical to the canary announcement."""
    c = ("PTR", "_c._tcp.local.", 1)
    return [wire.response([c + (4500, CANARY_INST)]), wire.response([c + (0, CANARY_INST)]),
            wire.response([c + (0, CANARY_INST), c + (4500, CANARY_INST)]),
            wire.response([c + (4500, CANARY_INST), c + (0, CANARY_INST)]),
            wire.response([c + (120, CANARY_INST), c + (4500, CANARY_INST)])]


def self_points() -> List[Tuple[int, ...]]:
    n = len(self_datagrams())
    return [seq for k in (1, 2, 3) for seq in itertools.product(range(n), repeat=k)]


def run_self(item: Tuple[int, ...]) -> Tuple[Optional[str], str]:
    problems: List[str] = []
    ds = self_datagrams()
    with World(rand=RandPolicy.const(0.0)) as w:
        host, lst = busy_world(w)
        for k, i in enumerate(item):
            data = bytearray(ds[i])
            struct.pack_into(">H", data, 0, 0x5E00 + k)  # (distinct bytes per occurrence: the duplicate guard is C16's)
            deliver(w, host, bytes(data), ("10.0.0.93", 5353))
            w.advance(1300)
        excs = w.exceptions()
        if excs:
            problems.append(f"exception: {excs[0][:300]}")
        canary(w, host, lst, problems)
    return (problems[0] if problems else None), f"self:{'bad' if problems else 'ok'}"


def repeat_points() -> List[Tuple[int, int]]:
    return [(spacing, n) for spacing in (300, 600, 900, 999, 1000, 1200) for n in (2, 3, 4, 7)]


def run_repeat(item: Tuple[int, int]) -> Tuple[Optional[str], str]:
    """The same well-formed query, byte for byte, again and again (every querier uses message id 0, so a repeated question IS
    the same datagram).  A copy that comes less than a second after the last one that was handled may be taken for a
    duplicate; every other copy is a query like any other and is owed its answer."""
    spacing, n = item
    problems: List[str] = []
    with World(rand=RandPolicy.const(0.0)) as w:
        host, lst = busy_world(w)
        w.advance(2600)
        t0 = w.now_ms
        n0 = len(w.net.trace)
        q = wire.query([("Q", TA, 12, 1)], id_=0)
        owed, last_handled = 0, None
        for k in range(n):
            t = t0 + k * spacing
            w.advance_to_ms(t)
            deliver(w, host, q, ("10.0.0.92", 5353))
            if last_handled is None or t - last_handled >= 1000:
                owed, last_handled = owed + 1, t
        # ... and the same with an announcement (nothing of the host's own loops back in between): the cached record carries
        # the arrival time of the last copy that was handled
        ann = wire.response([("PTR", "_q._tcp.local.", 1, 4500, "again._q._tcp.local.")])  # (a type nobody browses: no traffic of the host in between)
        t1 = w.now_ms + 1500
        last_ann = None
        for k in range(n):
            t = t1 + k * spacing
            w.advance_to_ms(t)
            deliver(w, host, ann, ("10.0.0.91", 5353))
            if last_ann is None or t - last_ann >= 1000:
                last_ann = t
        cached = [r for r in host.zc.cache.entries_with_name("_q._tcp.local.") if r.alias == "again._q._tcp.local."]
        # (the host's own traffic - a browser refresh, a lookup retry - may fall between two copies and shift which copies count
        # as repeats: the record must date from the last second before the copy that is owed by the rule at the latest)
        if not cached or cached[0].created < last_ann - 1000:
            problems.append(f"repeats: {n} copies of one announcement {spacing} ms apart; the copy at +{last_ann - t1:.0f} ms came at "
                            f"least a second after the last one handled, the cached record dates from "
                            f"+{(cached[0].created - t1) if cached else None} ms")
        w.advance(3000)
        got = 0
        for s_ in w.net.trace[n0:]:
            if s_.host == host.name and s_.multicast:
                m = wire.decode(s_.data)
                if m.flags & 0x8000 and any(r[0] == "PTR" and r[1].lower() == TA for r in m.answers):
                    got += 1
        if got < owed:
            problems.append(f"repeats: {n} copies of one query {spacing} ms apart, {owed} of them at least a second after the "
                            f"last one handled, but only {got} answers")
        excs = w.exceptions()
        if excs:
            problems.append(f"exception: {excs[0][:300]}")
        canary(w, host, lst, problems)
    return (problems[0] if problems else None), f"repeat:{'bad' if problems else 'ok'}"


def run_stream(item: Tuple[List[Tuple[str, bytes]], int]) -> Tuple[Optional[str], str]:
    """One busy world, a stream of datagrams with clock steps between them."""
    chunk, variant = item
    problems: List[str] = []
    gaps = (0, 600, 1500)
    with World(rand=RandPolicy.const(1.0 if variant % 2 else 0.0)) as w:
        host, lst = busy_world(w)
        for k, (kind, data) in enumerate(chunk):
            deliver(w, host, data, SOURCES[(k + variant) % len(SOURCES)])
            w.advance(gaps[(k + variant) % 3])
            if w.loop.exceptions:
                break
        excs = w.exceptions()
        if excs:
            problems.append(f"exception: {excs[0][:300]} (stream position {k}, {kind})")
        canary(w, host, lst, problems)
    return (problems[0] if problems else None), f"stream:{'bad' if problems else 'ok'}"


def run(tier: str, seed: int) -> Tuple[Stats, str, List[str], Dict[str, Any]]:
    stats = Stats()
    corp = corpus(tier)
    for name in (CANARY_Q, CANARY_ANN):
        if any(d == name for _, d in corp):
            raise HarnessError("canary datagram occurs in the corpus")
    # sanity: the busy world answers the canary when nothing hostile was delivered
    v, _ = run_one(("baseline", wire.query([("Q", "nothing.local.", 1, 1)]), 0))
    if v:
        raise HarnessError(f"busy world fails its own canary: {v}")
    sizes: Dict[str, int] = {}
    singles: List[Tuple[str, bytes, int]] = []
    for kind, d in corp:
        if kind in ("hazard", "rhazard", "oversize", "family"):
            srcs = range(len(SOURCES))
        elif kind == "echoed":
            srcs = (1, 3)  # source ports other than 5353: the reply echoes id and questions
        elif kind == "mutation":
            srcs = (0, 1) if tier == "quick" else range(len(SOURCES))
        else:
            srcs = (len(singles) % 2,)
        for si in srcs:
            singles.append((kind, d, si))
            sizes[kind] = sizes.get(kind, 0) + 1

    def record(problem: Optional[str], oc: str, replay: Dict[str, Any]) -> None:
        stats.executions += 1
        stats.transitions += replay.get("n", 1)
        stats.outcome(oc)
        if problem:
            sig = "echo-name-too-long" if "NamePartTooLong" in problem else problem.split(":")[0]
            if not stats.room({"check": sig}):
                return
            stats.violations.append(Violation(f"C15 {replay.get('what')}: {problem}", replay, {"check": sig}))

    for item, (problem, oc) in zip(singles, pmap_iter(guarded_problem(run_one), singles, chunk=64)):
        record(problem, oc, {"mode": "single", "kind": item[0], "data": item[1], "source": item[2],
                             "what": f"{item[0]} datagram {item[1][:40].hex()}... ({len(item[1])} B) from {SOURCES[item[2]]}"})
    # streams: the whole corpus in order, 50 per world, two variants of sources/gaps/jitter
    chunks = [corp[i:i + 50] for i in range(0, len(corp), 50)]
    streams = [(c, v) for v in ((0, 1) if tier == "quick" else (0, 1, 2, 3)) for c in chunks]
    for (c, v), (problem, oc) in zip(streams, pmap_iter(guarded_problem(run_stream), streams, chunk=4)):
        record(problem, oc, {"mode": "stream", "variant": v, "chunk": [d for _, d in c], "n": len(c),
                             "what": f"stream of {len(c)} datagrams starting with {c[0][0]} (variant {v})"})
    sizes["streams"] = len(streams)
    cancels = [(di, t, o, g) for di in range(len(CANCEL_DATA)) for t in ("lookup", "registration")
               for o in ("cancel-first", "deliver-first") for g in (0, 1, 2)]
    for item, (problem, oc) in zip(cancels, pmap_iter(guarded_problem(run_cancel), cancels, chunk=4)):
        record(problem, oc, {"mode": "cancel", "item": list(item),
                             "what": f"{item[1]} waiter cancelled ({item[2]}, {item[3]} iterations apart) around valid datagram #{item[0]}"})
    sizes["cancels"] = len(cancels)
    tr = [(ti, si, gap) for ti in range(len(trains())) for si in range(len(SOURCES)) for gap in (0, 50, 450)]
    for item, (problem, oc) in zip(tr, pmap_iter(guarded_problem(run_train), tr, chunk=8)):
        record(problem, oc, {"mode": "train", "item": list(item),
                             "what": f"truncated-query train #{item[0]} from {SOURCES[item[1]]}, {item[2]} ms apart"})
    sizes["trains"] = len(tr)
    vs = valid_schedules()
    for item, (problem, oc) in zip(vs, pmap_iter(guarded_problem(run_valid), vs, chunk=16)):
        record(problem, oc, {"mode": "valid", "item": [list(item[0]), item[1], list(item[2])], "n": 6,
                             "what": f"five well-formed queries {item[0]} ms apart, last {item[1]}, jitter draws {item[2]}"})
    sizes["valid_schedules"] = len(vs)
    sp = self_points()
    for item, (problem, oc) in zip(sp, pmap_iter(guarded_problem(run_self), sp, chunk=8)):
        record(problem, oc, {"mode": "self", "item": list(item), "n": len(item),
                             "what": f"datagrams {list(item)} of the canary instance's own history (announce, goodbye, both in one)"})
    sizes["canary_history"] = len(sp)
    rq = repeat_points()
    for item, (problem, oc) in zip(rq, pmap_iter(guarded_problem(run_repeat), rq, chunk=4)):
        record(problem, oc, {"mode": "repeat", "item": list(item), "n": item[1],
                             "what": f"{item[1]} byte-identical copies of a valid query {item[0]} ms apart"})
    sizes["repeats"] = len(rq)
    rp = reentrant_points()
    for item, (problem, oc) in zip(rp, pmap_iter(guarded_problem(run_reentrant), rp, chunk=8)):
        record(problem, oc, {"mode": "reentrant", "item": list(item), "n": 2,
                             "what": f"a listener that adds a listener from its {item[3]} callback; a {item[0]} record of 2 s, "
                                     f"{item[1]} ms later its {item[2]}"})
    sizes["reentrant"] = len(rp)
    # all ordered pairs of one representative per (kind, decoder outcome class)
    reps: Dict[str, bytes] = {}
    for kind, d in corp:
        try:
            with watchdog():
                oc = D.check_datagram(d, count_calls=False)[1]
        except (WatchdogTimeout, MemoryError):
            oc = "nonterminating"  # (reported by the single deliveries above)
        reps.setdefault(f"{kind}/{oc}", d)
    pairs = [([("a", a), ("b", b)], 0) for a, b in itertools.permutations(list(reps.values()), 2)]
    for (c, v), (problem, oc) in zip(pairs, pmap_iter(guarded_problem(run_stream), pairs, chunk=16)):
        record(problem, "pair:" + oc.split(":")[-1], {"mode": "stream", "variant": 0, "chunk": [d for _, d in c], "n": 2,
                                                     "what": "ordered pair of class representatives"})
    sizes["pairs"] = len(pairs)
    stats.states = len(stats.outcomes)
    stats.notes["corpus_sizes"] = sizes
    stats.sample({"kind": "hazard", "hex": corp[0][1].hex()})
    stats.sample({"kind": "mutation", "hex": [d for k, d in corp if k == "mutation"][100].hex()})
    rule = ("one evaluation = a busy instance (two services, browser, lookup in progress, deferred TC query) receives one "
            "corpus datagram (fresh world; source port 5353/1234, IPv4/IPv6) or a stream/pair of them, then a canary "
            "query and a canary announcement; outcome classes = corpus family x ok/bad")
    assumptions = [
        "an exception leaving datagram_received is reported to the loop's exception handler (as a selector transport does)",
        "random byte strings are not sampled; the corpora are the exhaustive small spaces of C02 plus echo hazards",
        "the canary datagrams are checked not to occur in the corpus (the duplicate guard would otherwise drop them)",
    ]
    return stats, rule, assumptions, {"corpus": len(corp), "single_deliveries": len(singles), "streams": len(streams),
                                      "pairs": len(pairs)}


def replay(data: Dict[str, Any]) -> int:
    if data.get("mode") == "single":
        problem, oc = run_one((data["kind"], data["data"], data["source"]))
    elif data.get("mode") == "cancel":
        problem, oc = run_cancel(tuple(data["item"]))
    elif data.get("mode") == "train":
        problem, oc = run_train(tuple(data["item"]))
    elif data.get("mode") == "repeat":
        problem, oc = run_repeat(tuple(data["item"]))
    elif data.get("mode") == "self":
        problem, oc = run_self(tuple(data["item"]))
    elif data.get("mode") == "reentrant":
        problem, oc = run_reentrant(tuple(data["item"]))
    elif data.get("mode") == "valid":
        it = data["item"]
        problem, oc = run_valid((tuple(it[0]), it[1], tuple(it[2])))
    else:
        problem, oc = run_stream(([("x", d) for d in data["chunk"]], data.get("variant", 0)))
    if problem:
        print("VIOLATION reproduced:", problem)
        return 1
    print("no violation on this tree:", oc)
    return 0
