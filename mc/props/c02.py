"""C02 - the decoder is total, bounded and faithful on arbitrary datagrams (E3)."""
from __future__ import annotations

import itertools
from typing import Any, Dict, Iterator, List, Optional, Tuple

from .. import wire
from ..explore import Stats, Violation, enumerate_inputs
from ..world import install_seams, set_debug_logging
from . import decoder as D

ID = "C02"
TECHNIQUE = ("bounded-exhaustive enumeration of datagrams: every body over an adversarial byte alphabet up to a length "
             "bound under 30 headers, structurally enumerated records, all name-compression graphs on <= n nodes, "
             "parametric chain/stack/length families swept over their range, all single-edit mutations of seed "
             "messages; oracle = totality, profile-event work budget, 253-character name bound, agreement with an "
             "independent strict RFC 1035 parser")


def check(data: bytes) -> Tuple[Optional[Dict[str, Any]], str]:
    problem, oc, calls = D.check_datagram(data)
    budget = D.budget_for(data)
    oc = f"{oc}|work{min(9, (10 * calls) // budget)}"
    if problem is None:
        return None, oc
    kind = oc.split("|")[0].split("/")[0]
    return ({"what": f"C02 datagram {data[:48].hex()}{'...' if len(data) > 48 else ''} ({len(data)} bytes): {problem[:500]}",
             "replay": {"data": data}, "signature": {"check": kind}}, oc)


def check_debug(data: bytes) -> Tuple[Optional[Dict[str, Any]], str]:
    set_debug_logging(True)
    try:
        return check(data)
    finally:
        set_debug_logging(False)


def spaces(tier: str) -> List[Tuple[str, Iterator[bytes], bool]]:
    q = tier == "quick"
    seeds = D.seeds()
    sp: List[Tuple[str, Iterator[bytes], bool]] = [
        ("bodies<=4/alpha11/30hdr", D.bodies(D.ALPHA11, 4, D.HEADERS), False),
        ("bodies=5/alpha11/6hdr" if q else "bodies<=6/alpha11/6hdr",
         (b for b in D.bodies(D.ALPHA11, 5 if q else 6, D.HEADERS[10:16]) if len(b) >= 12 + 5), False),
        ("records", D.structured(D.ALPHA5 if q else D.ALPHA8, 4 if q else 6, 4 if q else 5), False),
        ("graphs", itertools.chain(D.graphs(1, (0, 1, 2)), D.graphs(2, (0, 1, 2)), D.graphs(3, (0, 1, 2)),
                                   D.graphs(4, (0, 1) if q else (0, 1, 2))), False),
        ("families", D.families(tier), False),
        ("mutations", itertools.chain.from_iterable(D.mutations(s) for s in seeds), False),
        ("debug-log-on", itertools.chain(D.graphs(3, (0, 1)), D.families("quick"),
                                         itertools.chain.from_iterable(D.mutations(s) for s in seeds[:4]),
                                         D.bodies(D.ALPHA11, 3, D.HEADERS)), True),
    ]
    if not q:
        sp.append(("bodies<=7/alpha8/3hdr", D.bodies(D.ALPHA8, 7, D.HEADERS[11:14]), False))
        sp.append(("graphs5", D.graphs(5, (0, 1)), False))
        sp.append(("double-mutations", itertools.chain.from_iterable(D.double_mutations(s) for s in seeds[:4]), False))
    return sp


# the 8966-byte limit is the listener's: whatever is longer must not reach the decoder at all (the work budget is stated for
# datagrams up to that size), with logging at any level
LISTENER_SIZES = (1000, 8965, 8966, 8967, 9000, 20000, 65507)


def listener_datagram(size: int) -> bytes:
    """A well-formed response of exactly `size` bytes: a marker pointer and TXT records as padding."""
    marker = ("PTR", "_m._tcp.local.", 1, 4500, f"size{size}._m._tcp.local.")
    recs = [marker]
    base = len(wire.response(recs))
    left = size - base
    k = 0
    while left > 0:
        # one TXT record costs 2 (pointer to the owner) + 10 + rdata bytes once the owner name has been spelled out
        owner = "_m._tcp.local."
        fixed = len(wire.response(recs + [("TXT", owner, 1, 4500, b"")])) - len(wire.response(recs))
        n = min(left - fixed, 8000)
        if n < 0:
            return b""  # this size cannot be hit exactly with the padding scheme
        recs.append(("TXT", owner, 1, 4500, bytes([k % 200 + 1]) * n))
        left = size - len(wire.response(recs))
        k += 1
    data = wire.response(recs)
    return data if len(data) == size else b""


def listener_point(item: Tuple[int, bool, int]) -> Tuple[Optional[str], str]:
    import sys
    from ..world import World
    size, debug, src_kind = item
    data = listener_datagram(size)
    if not data:
        return None, "listener:size-not-constructible"
    src = [("10.0.0.9", 5353), ("10.0.0.9", 40000), ("fe80::9", 5353, 0, 3)][src_kind]
    with World(debug_log=debug) as w:
        host = w.new_zeroconf(mode="dual")
        w.advance(50)
        n = [0]

        def prof(frame: Any, event: str, arg: Any) -> None:
            if event in ("call", "c_call"):
                n[0] += 1

        sys.setprofile(prof)
        try:
            w.net.inject(host, data, src, role="listen" if len(src) == 2 and src[1] == 5353 else "respond")
        finally:
            sys.setprofile(None)
        w.settle()
        cached = any(r.alias == f"size{size}._m._tcp.local." for r in host.zc.cache.entries_with_name("_m._tcp.local.") if r.type == 12)
        excs = w.exceptions()
    if excs:
        return f"exception in the event loop: {excs[0]}", "listener:bad"
    if size <= 8966 and not cached:
        return f"a well-formed datagram of {size} bytes was not ingested", "listener:bad"
    if size > 8966:
        if cached:
            return f"a datagram of {size} bytes (over the 8966-byte limit) was decoded and ingested", "listener:bad"
        if n[0] > 120:
            return (f"a datagram of {size} bytes (over the 8966-byte limit) cost {n[0]} calls in datagram_received: it must be "
                    f"dropped unread"), "listener:bad"
    return None, f"listener:{'ingested' if cached else 'ignored'}"


def in_flight_point(item: Tuple[int, int, int]) -> Tuple[Optional[str], str]:
    """Two datagrams in flight at once - what the listener does with a truncated query: the first is constructed (header and
    questions read) and put aside unread, the second is constructed and perhaps read, and only then are the records of
    the first read.  Each must still decode to what the strict parser reads in its own bytes."""
    from zeroconf import DNSIncoming
    ds = D.in_flight_set()
    a, b, order = ds[item[0]], ds[item[1]], item[2]
    ma = DNSIncoming(a)
    mb = DNSIncoming(b)
    if order == 0:
        ma.answers(), mb.answers()
    elif order == 1:
        mb.answers(), ma.answers()
    else:
        mc_ = DNSIncoming(a)  # a third object for the first datagram's bytes, read at once
        mc_.answers(), ma.answers(), mb.answers()
    for which, msg, data in (("first", ma, a), ("second", mb, b)):
        problem, oc = D.faithful(msg, data)
        if problem:
            return f"{which} of two datagrams in flight: {problem[:500]}", "in-flight:mismatch"
    return None, "in-flight:agree"


def run(tier: str, seed: int) -> Tuple[Stats, str, List[str], Dict[str, Any]]:
    install_seams()
    stats = Stats()
    sizes = {}
    items = [(s, dbg, k) for s in LISTENER_SIZES for dbg in (False, True) for k in (0, 1, 2)]
    for it in items:
        problem, oc = listener_point(it)
        stats.executions += 1
        stats.transitions += 1
        stats.outcome(oc)
        if problem:
            stats.violations.append(Violation(f"C02 listener, {it[0]}-byte datagram (debug logging {it[1]}, source kind {it[2]}): "
                                              f"{problem}", {"listener_item": list(it)}, {"check": "listener"}))
    sizes["listener"] = len(items)
    n_if = len(D.in_flight_set())
    pairs = [(i, j, o) for i in range(n_if) for j in range(n_if) for o in (0, 1, 2)]
    for it in pairs:
        problem, oc = in_flight_point(it)
        stats.executions += 1
        stats.transitions += 1
        stats.outcome(oc)
        if problem and stats.room({"check": "in-flight"}, 25):
            stats.violations.append(Violation(f"C02 datagrams #{it[0]} and #{it[1]} of the in-flight set (reading order {it[2]}): "
                                              f"{problem}", {"in_flight_item": list(it)}, {"check": "in-flight"}))
    sizes["in_flight_pairs"] = len(pairs)
    for name, space, dbg in spaces(tier):
        before = stats.executions
        enumerate_inputs(check_debug if dbg else check, space, stats, name, chunk=1024)
        sizes[name] = stats.executions - before
    stats.states = len(stats.outcomes)
    stats.notes["space_sizes"] = sizes
    stats.sample({"hex": D.build_graph([(1, ("ptr", 1)), (0, ("ptr", 0)), (2, "root")]).hex(), "kind": "graph"})
    stats.sample({"hex": D.chain(5).hex(), "kind": "pointer chain depth 5"})
    stats.sample({"hex": (D.HEADERS[1] + bytes([0xC0, 0x0C, 0x00, 0x0C])).hex(), "kind": "body over the byte alphabet"})
    rule = ("one evaluation = DNSIncoming(data), .answers(), .questions, repr() on one datagram under sys.setprofile; "
            "outcome class = (library validity / strict-parser verdict / agreement size) x tenth of the work budget used")
    assumptions = [
        f"work budget: {D.BUDGET_A} + {D.BUDGET_B} x len(data) + {D.BUDGET_C} x min(entries declared, len(data) / 5) call/c_call "
        f"profile events (per entry: one name of up to 128 labels and 128 pointer hops)",
        "the strict parser only ever shrinks the set on which agreement is demanded (backward pointers, exact "
        "rdlength, A=4/AAAA=16 bytes, well-formed NSEC windows, no trailing bytes, names <= 253)",
        "character-strings and labels are compared as text after UTF-8 'replace' decoding",
        "uniformly random byte strings are not sampled (outside this family): the small-alphabet spaces are the "
        "exhaustive counterpart",
    ]
    return stats, rule, assumptions, {"spaces": sizes}


def replay(data: Dict[str, Any]) -> int:
    install_seams()
    if "listener_item" in data:
        it = data["listener_item"]
        problem, oc = listener_point((int(it[0]), bool(it[1]), int(it[2])))
        if problem:
            print("VIOLATION reproduced:", problem)
            return 1
        print("no violation on this tree:", oc)
        return 0
    if "in_flight_item" in data:
        problem, oc = in_flight_point(tuple(int(x) for x in data["in_flight_item"]))
        if problem:
            print("VIOLATION reproduced:", problem)
            return 1
        print("no violation on this tree:", oc)
        return 0
    d = data["data"]
    problem, oc, calls = D.check_datagram(d)
    print(f"{len(d)} bytes, outcome {oc}, {calls} calls")
    if problem:
        print("VIOLATION reproduced:", problem[:1500])
        return 1
    print("no violation on this tree")
    return 0
