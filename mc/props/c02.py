"""C02 - the decoder is total, bounded and faithful on arbitrary datagrams (E3)."""
from __future__ import annotations

import itertools
from typing import Any, Dict, Iterator, List, Optional, Tuple

from ..explore import Stats, enumerate_inputs
from ..world import install_seams, set_debug_logging
from . import decoder as D

ID = "C02"
TECHNIQUE = ("bounded-exhaustive enumeration of datagrams: every body over an adversarial byte alphabet up to a length "
             "bound under 30 headers, structurally enumerated records, all name-compression graphs on <= n nodes, "
             "parametric chain/stack/length families swept over their range, all single-edit mutations of seed "
             "messages; oracle = totality, profile-event work budget, 253-character name bound, agreement with an "
             "independent strict RFC 1035 parser")


def check(data: bytes) -> Tuple[Optional[Dict[str, Any]], str]:
    problem, oc, calls = D.check_datagram(data)
    budget = D.budget_for(data)
    oc = f"{oc}|work{min(9, (10 * calls) // budget)}"
    if problem is None:
        return None, oc
    kind = oc.split("|")[0].split("/")[0]
    return ({"what": f"C02 datagram {data[:48].hex()}{'...' if len(data) > 48 else ''} ({len(data)} bytes): {problem[:500]}",
             "replay": {"data": data}, "signature": {"check": kind}}, oc)


def check_debug(data: bytes) -> Tuple[Optional[Dict[str, Any]], str]:
    set_debug_logging(True)
    try:
        return check(data)
    finally:
        set_debug_logging(False)


def spaces(tier: str) -> List[Tuple[str, Iterator[bytes], bool]]:
    q = tier == "quick"
    seeds = D.seeds()
    sp: List[Tuple[str, Iterator[bytes], bool]] = [
        ("bodies<=4/alpha11/30hdr", D.bodies(D.ALPHA11, 4, D.HEADERS), False),
        ("bodies=5/alpha11/6hdr" if q else "bodies<=6/alpha11/6hdr",
         (b for b in D.bodies(D.ALPHA11, 5 if q else 6, D.HEADERS[10:16]) if len(b) >= 12 + 5), False),
        ("records", D.structured(D.ALPHA5 if q else D.ALPHA8, 4 if q else 6, 4 if q else 5), False),
        ("graphs", itertools.chain(D.graphs(1, (0, 1, 2)), D.graphs(2, (0, 1, 2)), D.graphs(3, (0, 1, 2)),
                                   D.graphs(4, (0, 1) if q else (0, 1, 2))), False),
        ("families", D.families(tier), False),
        ("mutations", itertools.chain.from_iterable(D.mutations(s) for s in seeds), False),
        ("debug-log-on", itertools.chain(D.graphs(3, (0, 1)), D.families("quick"),
                                         itertools.chain.from_iterable(D.mutations(s) for s in seeds[:4]),
                                         D.bodies(D.ALPHA11, 3, D.HEADERS)), True),
    ]
    if not q:
        sp.append(("bodies<=7/alpha8/3hdr", D.bodies(D.ALPHA8, 7, D.HEADERS[11:14]), False))
        sp.append(("graphs5", D.graphs(5, (0, 1)), False))
        sp.append(("double-mutations", itertools.chain.from_iterable(D.double_mutations(s) for s in seeds[:4]), False))
    return sp


def run(tier: str, seed: int) -> Tuple[Stats, str, List[str], Dict[str, Any]]:
    install_seams()
    stats = Stats()
    sizes = {}
    for name, space, dbg in spaces(tier):
        before = stats.executions
        enumerate_inputs(check_debug if dbg else check, space, stats, name, chunk=1024)
        sizes[name] = stats.executions - before
    stats.states = len(stats.outcomes)
    stats.notes["space_sizes"] = sizes
    stats.sample({"hex": D.build_graph([(1, ("ptr", 1)), (0, ("ptr", 0)), (2, "root")]).hex(), "kind": "graph"})
    stats.sample({"hex": D.chain(5).hex(), "kind": "pointer chain depth 5"})
    stats.sample({"hex": (D.HEADERS[1] + bytes([0xC0, 0x0C, 0x00, 0x0C])).hex(), "kind": "body over the byte alphabet"})
    rule = ("one evaluation = DNSIncoming(data), .answers(), .questions, repr() on one datagram under sys.setprofile; "
            "outcome class = (library validity / strict-parser verdict / agreement size) x tenth of the work budget used")
    assumptions = [
        f"work budget: {D.BUDGET_A} + {D.BUDGET_B} x len(data) + {D.BUDGET_C} x min(entries declared, len(data) / 5) call/c_call "
        f"profile events (per entry: one name of up to 128 labels and 128 pointer hops)",
        "the strict parser only ever shrinks the set on which agreement is demanded (backward pointers, exact "
        "rdlength, A=4/AAAA=16 bytes, well-formed NSEC windows, no trailing bytes, names <= 253)",
        "character-strings and labels are compared as text after UTF-8 'replace' decoding",
        "uniformly random byte strings are not sampled (outside this family): the small-alphabet spaces are the "
        "exhaustive counterpart",
    ]
    return stats, rule, assumptions, {"spaces": sizes}


def replay(data: Dict[str, Any]) -> int:
    install_seams()
    d = data["data"]
    problem, oc, calls = D.check_datagram(d)
    print(f"{len(d)} bytes, outcome {oc}, {calls} calls")
    if problem:
        print("VIOLATION reproduced:", problem[:1500])
        return 1
    print("no violation on this tree")
    return 0
