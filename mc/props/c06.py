"""C06 - response ingestion and the record-update listener contract (E2 BFS, shares the C05 search)."""
from __future__ import annotations

from typing import Any, Dict, List, Tuple

from ..explore import Stats
from . import cachesearch

ID = "C06"
TECHNIQUE = ("explicit-state BFS over histories of response datagrams and clock steps on the real record manager; "
             "per-datagram contract oracle (cache snapshots taken inside the listener callbacks) against the s.10 "
             "reference model, for passive, self-removing and listener-adding listeners in both registration orders")

CONFIGS = ["passive", "remove:RX", "remove:XR", "add:RX", "add:XR", "twice", "twice-removed"]


def run(tier: str, seed: int) -> Tuple[Stats, str, List[str], Dict[str, Any]]:
    stats = Stats()
    depth = 3 if tier == "quick" else 4
    logs: Dict[str, list] = {}
    cachesearch.run_search(ID, "quick", depth, stats, CONFIGS, level_logs=logs, max_states=3_000_000)
    if tier != "quick":
        wide: Dict[str, list] = {}
        cachesearch.run_search(ID, "thorough", 3, stats, ["passive", "remove:RX", "add:XR"], level_logs=wide,
                               max_states=2_000_000)
        stats.notes["levels_wide_alphabet"] = wide
    s = cachesearch.Search(ID, tier)
    stats.notes["levels"] = logs
    stats.notes["alphabet_datagrams"] = len(s.dgrams)
    stats.notes["alphabet_clock_steps_ms"] = s.steps
    rule = ("every history of <= depth events (response datagrams via RecordManager.async_updates_from_response, clock "
            "steps) x listener configuration; the acting listener removes itself / adds another listener inside its "
            "callback for the last datagram of the history; outcomes are distinct canonical cache states")
    assumptions = [
        "a datagram yielding no (new, previous) pair may produce zero calls or one call with an empty list",
        "datagrams that withdraw and assert the same record: final cache state not compared (text gives no order)",
        "listeners added or removed mid-datagram: at most one call of each kind is demanded",
        "the TTL carried by the `new` record handed to listeners is not compared (the text speaks about the cache)",
    ]
    return stats, rule, assumptions, {"depth": depth, "events": len(s.events), "configs": CONFIGS}


def replay(data: Dict[str, Any]) -> int:
    return cachesearch.replay(ID, data)
