"""C14 - size limits and section accounting (E3, shares the C01 generator)."""
from __future__ import annotations

from typing import Any, Dict, List, Optional, Tuple

from ..explore import Stats, Violation, guarded_problem, pmap
from ..world import World
from . import codec

ID = "C14"
TECHNIQUE = ("bounded-exhaustive enumeration of messages (all sequences of <= k placed entries over a name/record "
             "alphabet that forces every compression shape, x query/response x multicast/unicast x id; byte-position "
             "sweeps of the 1460/8966 rollback; section sizes 0..300) through the real encoder, decoded by the "
             "library's decoder and by an independent strict RFC 1035 decoder")


def send_cases(tier: str) -> List[codec.Case]:
    """Messages handed to the instance's sender (Zeroconf.async_send): a first datagram growing byte by byte up to the
    8966-byte limit followed by a second one, messages of several ordinary datagrams, and single small ones."""
    IN, FL = codec.IN, codec.FL
    small = ("A", "h.local.", FL, 120, codec.IP4)
    out: List[codec.Case] = []
    for total in list(range(1455, 1465)) + list(range(8955, codec.MAX_ABS + 1)):
        n = total - 12 - len(b"\x01t\x05local\x00") - 10
        txt = ("TXT", "t.local.", FL, 4500, b"\x07" * n)
        for placed in ([(txt, "an")], [(txt, "an"), (small, "an")], [(small, "an"), (txt, "an"), (small, "ad")],
                       [(("Q", "t.local.", 16, IN), "q"), (txt, "an"), (small, "an")]):
            for m in codec.MODES[:4]:
                out.append(codec.Case(m, placed))
    many = [(("PTR", "_a._tcp.local.", IN, 4500, f"inst{i}._a._tcp.local."), "an") for i in range(120)] + \
           [(("TXT", f"inst{i}._a._tcp.local.", FL, 4500, bytes([i]) * 40), "ad") for i in range(120)]
    for m in codec.MODES[:4]:
        out.append(codec.Case(m, many))
        out.append(codec.Case(m, [(small, "an")]))
    return out


def send_point(case_json: Dict[str, Any]) -> Tuple[Optional[str], int]:
    """Everything packets() yields must leave the socket, in order, when the message goes through the instance's sender."""
    case = codec.Case.from_json(case_json)
    with World() as w:
        host = w.new_zeroconf()
        want = codec.build(case).packets()
        n0 = len(w.net.trace)
        host.zc.async_send(codec.build(case))
        w.settle()
        got = [s.data for s in w.net.trace[n0:] if s.host == host.name]
        excs = w.exceptions()
    if excs:
        return f"exception in the event loop: {excs[0]}", len(want)
    if got != want:
        return (f"the builder produced datagrams of {[len(d) for d in want]} bytes, the sender put {[len(d) for d in got]} "
                f"bytes on the wire"), len(want)
    return None, len(want)


def _guarded_send(case_json: Dict[str, Any]) -> Tuple[Optional[str], int]:
    problem, n = guarded_problem(lambda cj: send_point(cj))(case_json)  # type: ignore[misc]
    return problem, (n if isinstance(n, int) else 1)


def run(tier: str, seed: int) -> Tuple[Stats, str, List[str], Dict[str, Any]]:
    stats = Stats()
    sizes = codec.run_codec(ID, tier, stats)
    cases = [c.as_json() for c in send_cases(tier)]
    for cj, (problem, n) in zip(cases, pmap(_guarded_send, cases)):
        stats.executions += 1
        stats.transitions += n
        stats.outcome(f"send-path:{'bad' if problem else 'ok'}:{min(n, 3)}")
        if problem and stats.room({"check": "send-path"}):
            stats.violations.append(Violation(f"C14 send path {codec.summary(codec.Case.from_json(cj))}: {problem}",
                                              {"send_case": cj}, {"check": "send-path"}))
    sizes["send_path"] = len(cases)
    stats.states = len(stats.outcomes)
    stats.notes["space_sizes"] = sizes
    stats.sample(codec.Case(codec.MODES[1], [(codec.entries_full()[2], "an"), (codec.entries_full()[70], "ad")]).as_json())
    rule = ("one evaluation = one message built with DNSOutgoing, packets() decoded with DNSIncoming and with "
            "wire.strict_decode, per-section concatenation compared with the input (name spelling, type, class, "
            "flush/QU bit when multicast, TTL or int(remaining TTL), rdata); outcome classes = space x packet count / "
            "rejection")
    assumptions = [
        "every entry fits one datagram alone (12 + uncompressed size <= 8966), as the quantifier says",
        "character-strings <= 255 bytes, NSEC types in window 0, TTL 0..2^32-1",
        "names are dotted text with a trailing dot (the builder's input format); dots inside an instance label are "
        "therefore label separators on the wire and compared as joined text",
    ]
    return stats, rule, assumptions, {"spaces": sizes}


def replay(data: Dict[str, Any]) -> int:
    if "send_case" in data:
        problem, _ = send_point(_plain(data["send_case"]))
        if problem:
            print("VIOLATION reproduced:", problem)
            return 1
        print("no violation on this tree")
        return 0
    return codec.replay_case(ID, data)


def _plain(x: Any) -> Any:
    return x
