"""C01 - wire codec round trip (E3): what is encoded is exactly what any decoder recovers."""
from __future__ import annotations

from typing import Any, Dict, List, Tuple

from ..explore import Stats
from . import codec

ID = "C01"
TECHNIQUE = ("bounded-exhaustive enumeration of messages (all sequences of <= k placed entries over a name/record "
             "alphabet that forces every compression shape, x query/response x multicast/unicast x id; byte-position "
             "sweeps of the 1460/8966 rollback; section sizes 0..300) through the real encoder, decoded by the "
             "library's decoder and by an independent strict RFC 1035 decoder")


def run(tier: str, seed: int) -> Tuple[Stats, str, List[str], Dict[str, Any]]:
    stats = Stats()
    sizes = codec.run_codec(ID, tier, stats)
    stats.states = len(stats.outcomes)
    stats.notes["space_sizes"] = sizes
    stats.sample(codec.Case(codec.MODES[1], [(codec.entries_full()[2], "an"), (codec.entries_full()[70], "ad")]).as_json())
    rule = ("one evaluation = one message built with DNSOutgoing, packets() decoded with DNSIncoming and with "
            "wire.strict_decode, per-section concatenation compared with the input (name spelling, type, class, "
            "flush/QU bit when multicast, TTL or int(remaining TTL), rdata); outcome classes = space x packet count / "
            "rejection")
    assumptions = [
        "every entry fits one datagram alone (12 + uncompressed size <= 8966), as the quantifier says",
        "character-strings <= 255 bytes, NSEC types in window 0, TTL 0..2^32-1",
        "names are dotted text with a trailing dot (the builder's input format); dots inside an instance label are "
        "therefore label separators on the wire and compared as joined text",
    ]
    return stats, rule, assumptions, {"spaces": sizes}


def replay(data: Dict[str, Any]) -> int:
    return codec.replay_case(ID, data)
