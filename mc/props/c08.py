"""C08 - withdrawn services stay withdrawn: complete goodbyes, no resurrection (E1, full product)."""
from __future__ import annotations

import asyncio
import itertools
from typing import Any, Dict, List, Optional, Tuple

from .. import wire
from ..explore import Stats, digest, explore_product
from ..models.cache_model import ident
from ..world import HarnessError
from ..models.responder_model import Svc
from ..scen import Peer, RandPolicy, decoded_trace, make_info, register, svc_records
from ..world import World

ID = "C08"
TECHNIQUE = ("stateless exploration of the full product grid (query kind x arrival offset before unregister/close x "
             "library jitter x registry shape x withdrawal mode x second query) on a real instance under the virtual "
             "loop/link; trace oracle: three complete goodbyes 125 ms apart, no withdrawn record with TTL>0 afterwards")

TA = "_a._tcp.local."
S1 = Svc(TA, "s1._a._tcp.local.", "h1.local.", 80, b"\x03a=b", [bytes([10, 0, 0, 1])], [])
S2_SHARED = Svc(TA, "s2._a._tcp.local.", "h1.local.", 81, b"", [bytes([10, 0, 0, 1])], [])
S2_OTHER = Svc("_b._tcp.local.", "s2._b._tcp.local.", "h2.local.", 81, b"", [bytes([10, 0, 0, 2])],
               [bytes.fromhex("fe800000000000000000000000000002")])
# the same service registered with capitals in its names (queries and the oracle compare names case-insensitively)
S1_CASED = Svc("_A._tcp.local.", "S1._A._tcp.local.", "H1.Local.", 80, b"\x03a=b", [bytes([10, 0, 0, 1])], [])
SHAPES = {"one": [S1], "shared-host": [S1, S2_SHARED], "other-host": [S1, S2_OTHER], "cased": [S1_CASED],
          "cased+other": [S1_CASED, S2_OTHER]}

# registries reached through an update that moves the *other* service to another host name (a new description object):
# 'away' leaves the withdrawn service alone on its host (addresses must be withdrawn), 'in' makes the host shared (they must not)
S2_MOVED_AWAY = Svc(TA, "s2._a._tcp.local.", "h2.local.", 81, b"", [bytes([10, 0, 0, 2])], [])
S2_MOVED_IN = Svc("_b._tcp.local.", "s2._b._tcp.local.", "h1.local.", 81, b"", [bytes([10, 0, 0, 1])], [])
MOVES = {"away": ("shared-host", S2_MOVED_AWAY), "in": ("other-host", S2_MOVED_IN)}

KINDS = ["qm-ptr", "qm-ptr+srv", "qm-srv", "qu-ptr", "legacy-ptr", "tc-ptr", "protected-ptr", "qm-a", "qm-any", "qm-burst"]
OFFSETS = [1, 19, 21, 119, 121, 250, 399, 401, 499, 501, 999, 1001, 1199]
U_MS = 5000.0  # withdrawal instant relative to world start (registration finished at ~800 ms)
HORIZON_MS = 6000.0


def query_bytes(kind: str) -> Tuple[bytes, int]:
    """(datagram, source port)"""
    if kind in ("qm-ptr", "protected-ptr", "qm-burst"):
        return wire.query([("Q", TA, 12, 1)]), 5353
    if kind == "qm-ptr+srv":
        return wire.query([("Q", TA, 12, 1), ("Q", S1.name, 33, 1)]), 5353
    if kind == "qm-srv":
        return wire.query([("Q", S1.name, 33, 1)]), 5353
    if kind == "qu-ptr":
        return wire.query([("Q", TA, 12, 0x8001)]), 5353
    if kind == "legacy-ptr":
        return wire.query([("Q", TA, 12, 1)], id_=0x4242), 1234
    if kind == "tc-ptr":
        return wire.query([("Q", TA, 12, 1)], tc=True), 5353
    if kind == "qm-a":
        return wire.query([("Q", S1.server, 1, 1), ("Q", S1.name, 16, 1)]), 5353
    if kind == "qm-any":
        return wire.query([("Q", S1.name, 255, 1), ("Q", TA, 255, 1)]), 5353
    raise ValueError(kind)


def grid(tier: str) -> List[Dict[str, Any]]:
    pts = []
    offsets = OFFSETS if tier == "quick" else sorted(set(OFFSETS) | set(range(1, 1300, 13)))
    modes = ["unregister", "unregister_all", "async_close", "sync_close"]
    seconds = [None, -300, -50, 60]  # -50: an answer of the ordinary aggregation queue is pending at the withdrawal too
    jit = [0.0, 0.5, 1.0]
    for kind, d, j, shape, mode, second in itertools.product(KINDS, offsets, jit, SHAPES, modes, seconds):
        if tier == "quick" and mode in ("async_close", "sync_close") and (second is not None or d not in (21, 250, 499, 1199)):
            continue
        pts.append({"kind": kind, "d": d, "jitter": j, "shape": shape, "mode": mode, "second": second})
    # the synchronous API from a foreign thread: unregister_service alone, and followed at once by close()
    base = [q for q in pts if q["mode"] == "unregister" and q["second"] is None and q["jitter"] == 0.0]
    pts += [dict(q, mode="sync_unregister") for q in base[::2]] + [dict(q, mode="sync_unregister_close") for q in base[1::2]]
    pts += [dict(q, mode="sync_update_unregister") for q in base[::3]]
    for gap in (0, 100, 230, 400, 460):
        pts += [dict(q, mode="unawaited_update", gap_ms=gap) for q in base[::5]]
        pts += [dict(q, mode="unawaited_register", gap_ms=gap) for q in base[2::7]]
    # the service is withdrawn through an equal but different description object (re-created by the application)
    pts += [dict(q, obj="recreated") for q in pts if q["mode"] == "unregister"][::3]
    # the other service was moved to / from the withdrawn service's host name by an update before the query arrives
    for mv, (shape, _s) in MOVES.items():
        pts += [dict(q, moved=mv) for q in pts if q["mode"] == "unregister" and q["shape"] == shape and q["second"] is None
                and "obj" not in q][::2]
    # the same on an IPv6-only host (queries from a link-local source): every 5th point
    pts += [dict(q, v6=True) for q in pts[::5]]
    for j in (0.0, 0.5, 1.0):
        for d1 in (5, 20, 60):
            pts.append({"fam": "three-on-host", "jitter": j, "d1": d1})
    return pts


# three services on one host name: while an answer for all of them waits under the one-second protection, one is moved to another
# host by an update (its queued pointer keeps the shared address as an additional - rightly, the host name is still in use) and
# the other two are unregistered one after the other: the host name goes out of use, its address records are withdrawn
H3_A = Svc(TA, "a3._a._tcp.local.", "h1.local.", 80, b"", [bytes([10, 0, 0, 1])], [])
H3_B = Svc(TA, "b3._a._tcp.local.", "h1.local.", 81, b"", [bytes([10, 0, 0, 1])], [])
H3_C = Svc(TA, "c3._a._tcp.local.", "h1.local.", 82, b"", [bytes([10, 0, 0, 1])], [])
H3_B_MOVED = Svc(TA, "b3._a._tcp.local.", "h2.local.", 81, b"", [bytes([10, 0, 0, 2])], [])


def run_three(p: Dict[str, Any], verbose: bool = False) -> Tuple[Optional[Dict[str, Any]], str, int]:
    problems: List[str] = []
    with World(rand=RandPolicy.const(p["jitter"])) as w:
        host = w.new_zeroconf()
        peer = Peer(w)
        infos = {n: make_info(s) for n, s in (("a", H3_A), ("b", H3_B), ("c", H3_C))}
        for info in infos.values():
            register(w, host, info)
        t0 = 1_000_000.0
        tq = t0 + U_MS
        recs: List[tuple] = []
        for s in (H3_A, H3_B, H3_C):
            recs += [r for r in svc_records(s) if r not in recs]
        peer.at(tq - 500, host, wire.response(recs))
        peer.at(tq, host, wire.query([("Q", TA, 12, 1)]))
        w.advance_to_ms(tq + p["d1"])

        async def ops() -> None:
            await _update(host, make_info(H3_B_MOVED))
            await _unreg(host, infos["a"])
            await _unreg(host, infos["c"])

        task = w.spawn(ops())
        w.advance_to_ms(tq + HORIZON_MS)
        if not task.done():
            problems.append("the update / unregister calls did not finish")
        trace = decoded_trace(w, host.name, since_ms=tq)
        withdrawn = set()
        for s in (H3_A, H3_C):
            for r in svc_records(s, True):
                withdrawn.add(ident(r))
        byes = [d for d in trace if d.is_response and d.multicast and
                any(ttl == 0 and i == ident(H3_C.ptr()) for i, ttl in d.idents_ttl())]
        if len(byes) != 3:
            problems.append(f"goodbyes: {len(byes)} goodbye datagrams for the service withdrawn last, expected three")
        else:
            t3 = byes[2].t_ms
            if not all(any(i == ident(a) and ttl == 0 for i, ttl in byes[2].idents_ttl()) for a in H3_C.addrs()):
                problems.append("goodbyes: the address of the host name is not withdrawn although no service uses it any more")
            for d in trace:
                if d.t_ms <= t3:
                    continue
                for i, ttl in d.idents_ttl():
                    if ttl > 0 and i in withdrawn:
                        problems.append(f"resurrection: {i} transmitted with TTL {ttl} at +{d.t_ms - tq:.1f} ms, after the third "
                                        f"goodbye (+{t3 - tq:.1f})")
                        break
        excs = w.exceptions()
        if excs:
            problems.append(f"exception in the event loop: {excs[0]}")
        obs = digest([(round(d.t_ms - tq, 3), d.sent.dest, d.sent.data) for d in trace])
        if verbose:
            for d in trace:
                print("   ", d.brief())
    verdict = None
    if problems:
        verdict = {"what": f"C08 {p}: {problems[0]}", "replay": {"problems": problems[:5]},
                   "signature": {"check": problems[0].split(":")[0]}}
    return verdict, obs, w.loop.handles_run


def run_point(p: Dict[str, Any], verbose: bool = False) -> Tuple[Optional[Dict[str, Any]], str, int]:
    if p.get("fam") == "three-on-host":
        return run_three(p, verbose)
    problems: List[str] = []
    # 'qm-burst': two queries 1 ms apart, the first draws the shortest and the second the longest delay, so the
    # aggregation queue holds two groups and keeps the first until its 500 ms deadline
    rand = RandPolicy.seq([p["jitter"], 1.0 - p["jitter"]], p["jitter"]) if p["kind"] == "qm-burst" else RandPolicy.const(p["jitter"])
    with World(rand=rand) as w:
        v6 = bool(p.get("v6"))
        host = w.new_zeroconf(mode="single6" if v6 else "single")
        peer = Peer(w)
        svcs = SHAPES[p["shape"]]
        infos = [make_info(s) for s in svcs]
        for info in infos:
            register(w, host, info)
        t0 = 1_000_000.0
        if p.get("moved"):
            moved = MOVES[p["moved"]][1]
            w.advance_to_ms(t0 + 1500)
            w.run_coro(_update(host, make_info(moved)))
            svcs = [svcs[0], moved]
        tq = t0 + U_MS - p["d"]
        data, port = query_bytes(p["kind"])
        if p["kind"] == "protected-ptr":
            # the host sees its records multicast by a cooperating responder 500 ms before the query
            prime = wire.response(svc_records(S1))
            peer.at(tq - 500, host, prime, v6=v6)
        peer.at(tq, host, data, port, v6=v6)
        if p["kind"] == "qm-burst":
            peer.at(tq + 1, host, wire.query([("Q", TA, 12, 1), ("Q", S1.name, 16, 1)], id_=8), port, v6=v6)
        if p["second"] is not None:
            peer.at(t0 + U_MS + p["second"], host, wire.query([("Q", TA, 12, 1), ("Q", S1.name, 16, 1)], id_=7), v6=v6)
        w.advance_to_ms(t0 + U_MS)
        mode = p["mode"]
        if mode == "unregister":
            task = w.spawn(_unreg(host, make_info(svcs[0]) if p.get("obj") == "recreated" else infos[0]))
            withdrawn_svcs = [svcs[0]]
            with_addr = p["shape"] != "shared-host"
            if p.get("moved"):
                with_addr = p["moved"] == "away"
        elif mode in ("sync_unregister", "sync_unregister_close"):
            with w.outside():
                host.zc.unregister_service(infos[0])
                if mode == "sync_unregister_close":
                    host.zc.close()
            task = None
            # judged for the service withdrawn by unregister_service (close withdraws the others in datagrams of their own)
            withdrawn_svcs = [svcs[0]]
            with_addr = p["shape"] != "shared-host"
        elif mode == "sync_update_unregister":
            # the synchronous API again: the description is announced anew (update_service) and the service withdrawn by the
            # very next statement - the update's announcements must all be out before the goodbyes begin
            with w.outside():
                host.zc.update_service(infos[0])
                host.zc.unregister_service(infos[0])
            task = None
            withdrawn_svcs = [svcs[0]]
            with_addr = p["shape"] != "shared-host"
        elif mode in ("unawaited_update", "unawaited_register"):
            # the usual way of calling the asyncio API: `await azc.async_update_service(info)` returns once the first announcement
            # is out and hands back a task for the other two, which few applications wait for; the service is withdrawn
            # `gap_ms` later, while that task is still at work
            async def hurried() -> None:
                if mode == "unawaited_update":
                    await host.zc.async_update_service(infos[0])
                else:
                    await host.zc.async_unregister_service(infos[0])   # (first withdrawn properly ...
                    await asyncio.sleep(2.0)
                    await host.zc.async_register_service(infos[0])     # ... then registered again, announcements not awaited)
                if p.get("gap_ms"):
                    await asyncio.sleep(p["gap_ms"] / 1000)
                hurried.t_unreg = w.now_ms
                await (await host.zc.async_unregister_service(infos[0]))
            task = w.spawn(hurried())
            withdrawn_svcs = [svcs[0]]
            with_addr = p["shape"] != "shared-host"
        elif mode == "unregister_all":
            task = w.spawn(host.azc.async_unregister_all_services())
            withdrawn_svcs = svcs
            with_addr = True
        elif mode == "async_close":
            task = w.spawn(host.azc.async_close())
            withdrawn_svcs = svcs
            with_addr = True
        else:
            with w.outside():
                host.zc.close()
            task = None
            withdrawn_svcs = svcs
            with_addr = True
        w.advance_to_ms(t0 + U_MS + HORIZON_MS)
        if task is not None and not task.done():
            problems.append("withdrawal call did not finish")
        # ---- oracle on the trace of the withdrawing host
        t_base = t0 + U_MS
        if mode in ("unawaited_update", "unawaited_register"):
            t_base = getattr(hurried, "t_unreg", None)
            if t_base is None:
                exc = task.exception() if task is not None and task.done() and not task.cancelled() else None
                if exc is None:
                    raise HarnessError("the withdrawal under test was never reached")
                # (e.g. the registration that precedes it met its own earlier records coming back after their goodbyes)
                problems.append(f"resurrection: the API calls before the withdrawal under test raised {type(exc).__name__}: {exc}")
                t_base = w.now_ms
        trace = decoded_trace(w, host.name, since_ms=t_base - 0.001)
        must = set()
        for s in withdrawn_svcs:
            for r in svc_records(s, with_addr):
                must.add(ident(r))
        goodbyes = []
        for d in trace:
            if not d.is_response or not d.multicast:
                continue
            zero = {i for i, ttl in d.idents_ttl() if ttl == 0}
            if zero & must:
                goodbyes.append((d.t_ms - t_base, zero, d))
        times = [round(t, 3) for t, _, _ in goodbyes]
        if len(goodbyes) != 3:
            problems.append(f"goodbyes: {len(goodbyes)} goodbye datagrams at {times}, expected three")
        else:
            if [round(times[1] - times[0], 3), round(times[2] - times[1], 3)] != [125.0, 125.0]:
                problems.append(f"goodbyes: sent at {times}, expected 125 ms apart")
            for t, zero, d in goodbyes:
                missing = must - zero
                if missing:
                    problems.append(f"goodbyes: goodbye at +{t} lacks TTL-0 copies of {sorted(missing, key=repr)}")
                if with_addr:
                    for s in withdrawn_svcs:
                        if s.missing() and not any(i[0] == "NSEC" and i[1] in (s.name.lower(), s.server.lower())
                                                   for i in zero):
                            problems.append(f"goodbyes: goodbye at +{t} lacks the NSEC record of {s.name}")
                if not with_addr:
                    extra = {i for i in zero if i[0] in ("A", "AAAA")}
                    if extra:
                        problems.append(f"goodbyes: address records {sorted(extra, key=repr)} withdrawn although another "
                                        f"service still uses the host name")
        if len(goodbyes) >= 3:
            t3 = goodbyes[2][0]
            for d in trace:
                if d.t_ms - t_base <= t3:
                    continue
                for i, ttl in d.idents_ttl():
                    if ttl > 0 and (i in must or (with_addr and any(i[0] == "NSEC" and i[1] == s.name.lower()
                                                                    for s in withdrawn_svcs))):
                        problems.append(f"resurrection: {i} transmitted with TTL {ttl} at +{d.t_ms - t_base:.1f} ms, "
                                        f"after the third goodbye (+{t3})")
                        break
        excs = w.exceptions()
        if excs:
            problems.append(f"exception in the event loop: {excs[0]}")
        obs = digest([(round(d.t_ms - t0, 3), d.sent.dest, d.sent.data) for d in decoded_trace(w, host.name, t0 + U_MS - 1300)])
        if verbose:
            for d in decoded_trace(w, host.name, t0 + U_MS - 1300):
                print("   ", d.brief())
    verdict = None
    if problems:
        verdict = {"what": f"C08 {p}: {problems[0]}", "replay": {"problems": problems[:5]},
                   "signature": {"check": problems[0].split(":")[0]}}
    return verdict, obs, w.loop.handles_run


async def _update(host: Any, info: Any) -> None:
    task = await host.zc.async_update_service(info)
    await task


async def _unreg(host: Any, info: Any) -> None:
    task = await host.zc.async_unregister_service(info)
    await task


def run(tier: str, seed: int) -> Tuple[Stats, str, List[str], Dict[str, Any]]:
    stats = Stats()
    pts = grid(tier)
    v1, o1, _ = run_point(pts[len(pts) // 2])
    v2, o2, _ = run_point(pts[len(pts) // 2])
    if o1 != o2:
        from ..world import HarnessError
        raise HarnessError("C08 scenario is not deterministic")
    explore_product(run_point, pts, stats, f"C08/{tier}")
    stats.states = len(stats.outcomes)
    rule = ("full Cartesian product of the grid; one execution = register, scripted query at U-d, withdrawal at U, run to "
            "U+6 s; distinct outcomes = distinct network traces of the withdrawing host")
    assumptions = [
        "API calls on the instance are sequential (registration incl. its announcements has finished before the query)",
        "the 'protected' case is produced by a cooperating responder multicasting the host's records 500 ms before the query",
        "answers transmitted between the first and the third goodbye are not judged (the statement speaks about the "
        "time after the sequence has completed)",
    ]
    return stats, rule, assumptions, {"grid_points": len(pts), "kinds": KINDS, "offsets_ms": OFFSETS if tier != "quick" else None}


def replay(data: Dict[str, Any]) -> int:
    p = dict(data["point"])
    v, o1, _ = run_point(p, verbose=True)
    _, o2, _ = run_point(p)
    if o1 != o2:
        print("HARNESS-ERROR: replay is not deterministic")
        return 2
    if v:
        print("VIOLATION reproduced:", v["what"])
        return 1
    print("no violation on this tree")
    return 0
