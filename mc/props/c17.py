"""C17 - shutdown is complete and quiet (E1, full product over every timer/IO instant of busy scenarios)."""
from __future__ import annotations

from typing import Any, Dict, List, Optional, Tuple

from .. import wire
from ..explore import Stats, digest, explore_product
from ..models.cache_model import ident
from ..models.responder_model import Svc
from ..scen import Decoded, RandPolicy, make_info, svc_records
from ..world import HarnessError, World

ID = "C17"
TECHNIQUE = ("stateless exploration: a reference run of each busy scenario records every instant at which a timer or "
             "datagram was processed; close is then requested at each such instant and 1 ms before/after it, through "
             "AsyncZeroconf.async_close and through Zeroconf.close from outside the loop (caller-thread seam), followed "
             "by a second close, three hours of virtual time and fresh traffic; silence/goodbye oracle on trace and "
             "callback log")

TA, TB = "_a._tcp.local.", "_b._tcp.local."
S1 = Svc(TA, "s1._a._tcp.local.", "h1.local.", 80, b"\x03a=b", [bytes([10, 0, 0, 1])], [])
S2 = Svc(TA, "s2._a._tcp.local.", "h1.local.", 81, b"", [bytes([10, 0, 0, 1])], [])
Z = "z._b._tcp.local."
SCENARIOS = ["busy", "busy-managed-browser", "early", "withdrawing"]
SPAN_MS = {"busy": 16_000, "busy-managed-browser": 16_000, "early": 1200, "withdrawing": 16_000}


class Log:
    def __init__(self, w: World) -> None:
        self.w = w
        self.calls: List[Tuple[float, str]] = []

    def note(self, what: str) -> None:
        self.calls.append((self.w.now_ms, what))

    # ServiceListener
    def add_service(self, zc: Any, t: str, n: str) -> None: self.note(f"browser add {n}")
    def remove_service(self, zc: Any, t: str, n: str) -> None: self.note(f"browser remove {n}")
    def update_service(self, zc: Any, t: str, n: str) -> None: self.note(f"browser update {n}")


def build(w: World, scenario: str, log: Log) -> Tuple[Any, float]:
    """Start the busy instance; everything is scheduled relative to the world's start."""
    from zeroconf import RecordUpdateListener
    from zeroconf.asyncio import AsyncServiceBrowser, AsyncServiceInfo

    host = w.new_zeroconf()
    zc, azc = host.zc, host.azc
    t0 = w.now_ms
    loop = w.loop

    class UL(RecordUpdateListener):
        def async_update_records(self, zc_: Any, now: float, records: list) -> None:
            log.note(f"listener update {len(records)}")

        def async_update_records_complete(self) -> None:
            log.note("listener complete")

    zc.async_add_listener(UL(), None)
    if scenario == "busy-managed-browser":
        w.spawn(azc.async_add_service_listener(TB, log))
    else:
        AsyncServiceBrowser(zc, TB, listener=log)
    infos = {"S1": make_info(S1), "S2": make_info(S2)}

    async def reg(name: str) -> None:
        try:
            task = await azc.async_register_service(infos[name])
            await task
            log.note(f"registered {name}")
        except Exception as e:  # noqa: BLE001 - registration interrupted by shutdown may fail; it must not leak
            log.note(f"register {name} raised {type(e).__name__}")

    async def lookup() -> None:
        info = AsyncServiceInfo(TB, Z)
        try:
            ok = await info.async_request(zc, 3000)
            log.note(f"lookup returned {ok}")
        except Exception as e:  # noqa: BLE001 - a lookup started on a closed instance is refused (NotRunningException)
            log.note(f"lookup returned {type(e).__name__}")

    def at(ms: float, fn: Any, *a: Any) -> None:
        loop.call_at((t0 + ms) / 1000, fn, *a)

    def inject(data: bytes, src: str = "10.0.0.99") -> None:
        w.net.inject(host, data, (src, 5353))

    at(100, lambda: w.spawn(reg("S1")))
    at(200, lambda: w.spawn(lookup()))
    if scenario != "early":
        at(1500, inject, wire.response([("PTR", TB, 1, 4500, Z)]))
        at(2000, inject, wire.query([("Q", TA, 12, 1)], id_=1))
        at(2050, inject, wire.query([("Q", TA, 12, 1)], id_=2, tc=True), "10.0.0.98")
        at(2300, inject, wire.query([("Q", TA, 12, 1), ("Q", S1.name, 16, 1)], id_=3))
        at(2500, lambda: w.spawn(reg("S2")))
        at(4000, inject, wire.response([("PTR", TB, 1, 0, Z)]))
        at(6000, inject, wire.response([("PTR", TB, 1, 1, Z)]))  # floored TTL: refresh timers far in the future
        at(7000, inject, wire.query([("Q", S1.name, 33, 1)], id_=4))
    if scenario == "withdrawing":
        # the application withdraws its services the usual way - `await azc.async_unregister_service(info)`, which returns a
        # task for the goodbyes that few callers wait for - shortly before it closes the instance
        async def unreg(name: str) -> None:
            await azc.async_unregister_service(infos[name])
            log.note(f"unregister {name} returned")

        at(9000, lambda: w.spawn(unreg("S2")))
        at(9060, lambda: w.spawn(unreg("S1")))
    return host, t0


def reference_instants(scenario: str, jitter: float) -> List[int]:
    with World(rand=RandPolicy.const(jitter), record_instants=True) as w:
        log = Log(w)
        host, t0 = build(w, scenario, log)
        w.advance_to_ms(t0 + SPAN_MS[scenario])
        inst = sorted(i for i in w.loop.instants if i / 1000 <= t0 + SPAN_MS[scenario])  # type: ignore[union-attr]
        return [i - int(t0 * 1000) for i in inst]


def run_birth(p: Dict[str, Any]) -> Tuple[List[str], str]:
    """Close requested while the instance is still starting up (k loop iterations after construction)."""
    from zeroconf.asyncio import AsyncServiceBrowser

    problems: List[str] = []
    with World(rand=RandPolicy.const(0.0)) as w:
        log = Log(w)
        host = w.new_zeroconf(mode=p["socks"], settle=False)
        AsyncServiceBrowser(host.zc, TB, listener=log)
        for _ in range(p["k"]):
            w.loop.run_iteration()
        if p["mode"] == "async_close":
            w.run_coro(host.azc.async_close(), max_ms=60_000)
        else:
            with w.outside():
                host.zc.close()
        n_calls, n_trace = len(log.calls), len(w.net.trace)
        w.settle()
        for dt in (1, 300, 5000, 3_600_000):
            w.advance(dt)
            w.net.inject(host, wire.response([("PTR", TB, 1, 4500, Z)]), ("10.0.0.97", 5353))
            w.net.inject(host, wire.response([("PTR", TB, 1, 4500, Z)]), ("fe80::97", 5353, 0, 3))
            w.settle()
        open_ = [t.sock for t in host.transports() if not t.closed]
        if open_:
            problems.append(f"sockets: {open_} still open after close returned (close requested {p['k']} loop iterations "
                            f"after construction)")
        if host.zc.started:
            problems.append("sockets: the instance reports itself started after close returned")
        if len(log.calls) > n_calls:
            problems.append(f"callbacks: {log.calls[n_calls:][:3]} fired after close returned")
        if len(w.net.trace) > n_trace:
            problems.append("silence: datagrams transmitted after close returned")
        excs = w.exceptions()
        if excs:
            problems.append(f"exception: {excs[0]}")
        obs = digest((len(host.transports()), log.calls))
    return problems, obs


def run_threaded(p: Dict[str, Any]) -> Tuple[List[str], str]:
    """The synchronous API's browser (zc.add_service_listener -> a ServiceBrowser with its own OS thread): a listener
    callback is still running - for `hold_s` more real seconds - when close() is called from the application thread, and
    another event is queued behind it.  close() must not return before every owed callback has been delivered.
    (Real thread, real seconds: the only part of this check that is not under the virtual scheduler; the enumerated
    dimension is how long the callback outlasts the close request.)"""
    import threading
    import time as real_time

    problems: List[str] = []
    with World(rand=RandPolicy.const(0.0)) as w:
        host = w.new_zeroconf()
        calls: List[Tuple[float, str, str]] = []
        entered, release = threading.Event(), threading.Event()

        class L:
            def add_service(self, zc: Any, t: str, n: str) -> None:
                calls.append((real_time.monotonic(), "add", n))
                if len(calls) == 1:
                    entered.set()
                    release.wait(60)

            def remove_service(self, zc: Any, t: str, n: str) -> None: calls.append((real_time.monotonic(), "rm", n))
            def update_service(self, zc: Any, t: str, n: str) -> None: calls.append((real_time.monotonic(), "upd", n))

        lst = L()
        with w.outside():
            for type_ in p.get("listen", [TB]):
                # (the same listener object registered again - for the same or for another type - replaces its browser)
                host.zc.add_service_listener(type_, lst)
                w.settle()
        w.settle()
        w.advance(200)
        for k in (1, 2):
            w.net.inject(host, wire.response([("PTR", TB, 1, 4500, f"t{k}._b._tcp.local.")]), ("10.0.0.97", 5353))
            w.settle()
        if not entered.wait(10):
            raise HarnessError("threaded browser never delivered its first callback")
        timer = threading.Timer(p["hold_s"], release.set)
        timer.start()
        with w.outside():
            host.zc.close()
        t_ret = real_time.monotonic()
        release.set()
        real_time.sleep(0.4)
        timer.cancel()
        late = [(round(t - t_ret, 2), k, n) for t, k, n in calls if t > t_ret]
        if late:
            problems.append(f"callbacks: {late} fired after close() returned (a callback was still running for "
                            f"{p['hold_s']} s when close was called)")
        if len(calls) < 2 and not late:
            problems.append(f"callbacks: the queued callback was never delivered ({calls})")
        from zeroconf import ServiceBrowser
        left = [t.name for t in threading.enumerate() if isinstance(t, ServiceBrowser) and t.zc is host.zc and t.is_alive()]
        if left:
            problems.append(f"browsers: browser thread(s) {left} of the closed instance are still running after close() returned")
        if host.zc.listeners:
            problems.append(f"browsers: {len(host.zc.listeners)} record listener(s) still registered after close() returned")
        excs = w.exceptions()
        if excs:
            problems.append(f"exception: {excs[0]}")
    return problems, digest((len(calls), bool(late)))


def points(tier: str) -> List[Dict[str, Any]]:
    pts: List[Dict[str, Any]] = []
    for hold in ((0.05, 1.1, 3.3) if tier == "quick" else (0.05, 0.5, 1.1, 3.3, 5.5, 11.0)):
        pts.append({"scenario": "threaded-browser", "hold_s": hold, "mode": "sync_close", "jitter": 0.0, "close_at_us": 0})
        if hold < 2:
            for listen in ([TB, TB], [TA, TB], [TB, TA, TB]):
                pts.append({"scenario": "threaded-browser", "hold_s": hold, "mode": "sync_close", "jitter": 0.0, "close_at_us": 0,
                            "listen": listen})
    for socks in ("single", "dual"):
        for k in range(0, 12):
            pts.append({"scenario": "at-birth", "socks": socks, "k": k, "mode": "async_close", "jitter": 0.0, "close_at_us": 0})
    step = 25 if tier == "quick" else 5
    for scenario in SCENARIOS:
        for jitter in ((0.0, 1.0) if tier == "quick" else (0.0, 0.5, 1.0)):
            inst = reference_instants(scenario, jitter)
            offs = set()
            for i in inst:
                for d in (-1000, 0, 1000):
                    if i + d >= 0:
                        offs.add(i + d)
            # every 25 ms while registrations (probes, announcements) are in flight
            if scenario == "withdrawing":
                # (what precedes the withdrawal is the 'busy' scenario's business)
                offs = {o for o in offs if o >= 8_990_000} | {ms * 1000 for ms in range(8990, 9400, 10)}
            for ms in [] if scenario == "withdrawing" else \
                    list(range(100, 1300, step)) + (list(range(2500, 3700, step)) if scenario != "early" else []):
                offs.add(ms * 1000)
            for off in sorted(offs):
                for mode in ("async_close", "sync_close", "sync_close_foreign_loop"):
                    if mode == "sync_close_foreign_loop" and (off // 1000) % 4:
                        continue  # the foreign thread runs an event loop of its own: a quarter of the instants
                    pts.append({"scenario": scenario, "jitter": jitter, "close_at_us": off, "mode": mode})
    # the loop's thread is blocked for a while right after close returned, while waiters (probe intervals, a lookup) were pending
    for scenario, lo, hi in (("busy", 2500, 3000), ("early", 100, 700), ("busy", 200, 400)):
        for ms in range(lo, hi, 50):
            for mode in ("async_close", "sync_close"):
                for stall in (300, 3000):
                    pts.append({"scenario": scenario, "jitter": 0.0, "close_at_us": ms * 1000, "mode": mode, "stall_ms": stall})
    # a close that is cancelled part-way and requested again (every loop iteration of the first close as cancellation point)
    for scenario, off in (("busy", 5_000_000), ("busy", 9_000_000), ("early", 400_000)):
        for k in range(0, 40):
            pts.append({"scenario": scenario, "jitter": 0.0, "close_at_us": off, "mode": "async_close_cancelled", "cancel_after": k})
    # closing again after the event loop itself has gone
    for scenario, off in (("busy", 5_000_000), ("busy", 2_600_000), ("early", 400_000)):
        for mode in ("async_close", "sync_close"):
            pts.append({"scenario": scenario, "jitter": 0.0, "close_at_us": off, "mode": mode, "then_loop_closed": True})
    # fault injection: the kernel's send buffer is full (EAGAIN) for the k-th goodbye datagram of the shutdown, or for all of
    # them; asyncio then holds the datagram in the transport's write buffer until the socket is writable again
    for scenario, offs2 in (("busy", (1_800_000, 5_000_000, 9_000_000)), ("early", (1_100_000,))):
        for off in offs2:
            for mode in ("async_close", "sync_close"):
                for k in (1, 2, 3, "all"):
                    pts.append({"scenario": scenario, "jitter": 0.0, "close_at_us": off, "mode": mode, "eagain_bye": k})
    return pts


def run_point(p: Dict[str, Any], verbose: bool = False) -> Tuple[Optional[Dict[str, Any]], str, int]:
    problems: List[str] = []
    if p["scenario"] in ("at-birth", "threaded-browser"):
        problems, obs = run_birth(p) if p["scenario"] == "at-birth" else run_threaded(p)
        verdict = None
        if problems:
            verdict = {"what": f"C17 {p}: {problems[0][:600]}", "replay": {"problems": problems[:5]},
                       "signature": {"check": problems[0].split(":")[0]}}
        return verdict, obs, 1
    with World(rand=RandPolicy.const(p["jitter"])) as w:
        log = Log(w)
        host, t0 = build(w, p["scenario"], log)
        zc, azc = host.zc, host.azc
        w.loop.advance_to(int(t0 * 1000) + p["close_at_us"])
        t_req = w.now_ms
        registered = {i.name.lower(): i for i in zc.registry.async_get_service_infos()}
        reg_descs = [s for s in (S1, S2) if s.name.lower() in registered]
        n_trace = len(w.net.trace)
        close_raised: List[str] = []

        def closing(fn: Any) -> None:
            # close() / async_close() themselves must not raise, whatever is in progress and however often they are called
            try:
                fn()
            except Exception as e:  # noqa: BLE001
                close_raised.append(f"{type(e).__name__}: {str(e)[:200]}")

        if p.get("eagain_bye"):
            seen_byes = [0]

            def eagain(data: bytes, want: Any = p["eagain_bye"]) -> bool:
                try:
                    m = wire.decode(data)
                except wire.Reject:
                    return False
                if not (m.is_response and any(r[3] == 0 for r in m.answers)):
                    return False
                seen_byes[0] += 1
                return want == "all" or seen_byes[0] == want

            for t in host.transports():
                t.eagain = eagain
        if p["mode"] == "async_close":
            closing(lambda: w.run_coro(azc.async_close(), max_ms=60_000))
        elif p["mode"] == "async_close_cancelled":
            # the application's close is cancelled after k loop iterations (a timeout around it, a cancelled parent task) and
            # requested again, as a `finally:` would: the second request has to finish what the first one left undone
            first = w.spawn(azc.async_close())
            for _ in range(p["cancel_after"]):
                if first.done() or not w.loop.step():
                    break
            first.cancel()
            w.settle()
            closing(lambda: w.run_coro(azc.async_close(), max_ms=60_000))
        else:
            with w.outside(foreign_loop=p["mode"] == "sync_close_foreign_loop"):
                closing(zc.close)
        t_ret = w.now_ms
        if p.get("stall_ms"):
            # the application blocks the loop's thread for a while right after close returned (synchronous clean-up): whatever
            # was left pending - a notification queued by the shutdown, timers of waiters - becomes due in ONE loop iteration
            w.loop.now_us += int(p["stall_ms"] * 1000)
            w.loop.run_once()
            w.settle()
        closed_trace = len(w.net.trace)
        calls_at_return = len(log.calls)
        # goodbyes for what was registered when close was requested, before the sockets closed
        during = [Decoded(s) for s in w.net.trace[n_trace:closed_trace] if s.host == host.name]
        must = set()
        for s in reg_descs:
            for r in svc_records(s, True):
                must.add(ident(r))
        gone = set()
        for d in during:
            if d.is_response and d.multicast:
                gone |= {i for i, ttl in d.idents_ttl() if ttl == 0}
        if must - gone:
            problems.append(f"goodbye: close returned without goodbyes for {sorted(must - gone, key=repr)[:3]} "
                            f"(registered when close was requested)")
        # withdrawn means withdrawn: once the last goodbye is out, no record of those services may follow with a TTL
        last_bye = max([d.t_ms for d in during if d.is_response and d.multicast and
                        any(ttl == 0 and i in must for i, ttl in d.idents_ttl())], default=None)
        if last_bye is not None:
            for d in during:
                if d.t_ms > last_bye and d.is_response:
                    back = [i for i, ttl in d.idents_ttl() if ttl > 0 and i in must]
                    if back:
                        problems.append(f"goodbye: {back[:2]} transmitted with a TTL {d.t_ms - last_bye:.0f} ms after the last "
                                        f"goodbye, before close returned")
                        break
        # whatever finished registering while close was under way is a registered service too: it must not be left
        # announced (positive TTL as the last word on the wire) or sitting in the registry
        last_ttl: Dict[tuple, Tuple[int, float]] = {}
        for s_ in w.net.trace[:closed_trace]:
            if s_.host != host.name:
                continue
            d_ = Decoded(s_)
            if d_.is_response and d_.multicast:
                for i, ttl in d_.idents_ttl():
                    if i[0] == "PTR":
                        last_ttl[i] = (ttl, d_.t_ms)
        left = sorted((i for i, (ttl, _) in last_ttl.items() if ttl > 0), key=repr)
        if left:
            problems.append(f"registered-during-close: {left[:2]} was last multicast with a positive TTL "
                            f"{last_ttl[left[0]][1] - t_req:.0f} ms after close was requested and never withdrawn")
        thrown = [d for t in host.transports() for d in t.dropped]
        if thrown:
            problems.append(f"goodbye: {len(thrown)} datagram(s) already handed to the socket were thrown away when it was shut "
                            f"down (unsent data in the transport's write buffer): {[(r[0], r[3]) for r in wire.decode(thrown[0]).records()][:4]}")
        if not all(t.closed for t in host.transports()):
            problems.append("sockets: a transport is still open after close returned")
        # second close: a no-op
        if p["mode"] in ("async_close", "async_close_cancelled"):
            closing(lambda: w.run_coro(azc.async_close(), max_ms=60_000))
        else:
            with w.outside(foreign_loop=p["mode"] == "sync_close_foreign_loop"):
                closing(zc.close)
        if close_raised:
            problems.append(f"close-raised: a close call raised {close_raised[0]}")
        # three hours, with fresh traffic aimed at the dead sockets
        for k, dt in enumerate((1, 50, 300, 1000, 5000, 60_000, 600_000, 3_600_000, 7_200_000)):
            w.advance(dt)
            w.net.inject(host, wire.query([("Q", TA, 12, 1)], id_=100 + k), ("10.0.0.99", 5353))
            w.net.inject(host, wire.response([("PTR", TB, 1, 4500, f"n{k}._b._tcp.local.")]), ("10.0.0.97", 5353))
            w.settle()
        after = [Decoded(s) for s in w.net.trace[closed_trace:] if s.host == host.name]
        if after:
            problems.append(f"silence: {len(after)} datagram(s) transmitted after close returned, first: {after[0].brief()}")
        if any(t.sent_after_close for t in host.transports()):
            problems.append("silence: sendto() was called on a closed transport")
        late = [c for c in log.calls[calls_at_return:] if not c[1].startswith(("lookup returned", "register"))]
        if late:
            problems.append(f"callbacks: {late[:3]} fired after close returned (+{t_ret - t_req:.0f} ms)")
        excs = w.exceptions()
        if excs:
            problems.append(f"exception: {excs[0]}")
        if w.loop.spins:
            problems.append("busy-loop: a timer keeps re-arming itself with no delay after shutdown")
        if p.get("then_loop_closed"):
            # the application's event loop has ended and was closed; a leftover close() (atexit, __exit__, __del__) from the
            # main thread is still "closing again"
            w.loop.shut()
            with w.outside():
                try:
                    zc.close()
                except Exception as e:  # noqa: BLE001
                    problems.append(f"close-again: close() on the closed instance raised {type(e).__name__}: {e} once the "
                                    f"event loop itself had been closed")
        obs = digest((round(t_ret - t_req, 3), [(round(d.t_ms - t_req, 3), d.sent.data) for d in during], log.calls[-3:]))
        if verbose:
            print(f"    close requested at +{t_req - t0:.1f}, returned +{t_ret - t_req:.1f} later; registered {list(registered)}")
            for d in during:
                print("    during", d.brief())
            print("    calls", [(round(t - t0, 1), c) for t, c in log.calls])
    verdict = None
    if problems:
        # the open finding's class only names the verdict when nothing else is wrong with this execution
        problems.sort(key=lambda s: s.startswith("registered-during-close"))
        verdict = {"what": f"C17 {p}: {problems[0][:600]}", "replay": {"problems": problems[:5]},
                   "signature": {"check": problems[0].split(":")[0]}}
    return verdict, obs, w.loop.handles_run


def run(tier: str, seed: int) -> Tuple[Stats, str, List[str], Dict[str, Any]]:
    stats = Stats()
    pts = points(tier)
    virtual = [q for q in pts if q["scenario"] != "threaded-browser"]  # (real threads and real seconds are not replayable)
    for q in (virtual[2], virtual[len(virtual) // 2]):
        if run_point(q)[1] != run_point(q)[1]:
            raise HarnessError("C17 scenario is not deterministic")
    explore_product(run_point, pts, stats, f"C17/{tier}")
    stats.states = len(stats.outcomes)
    per: Dict[str, int] = {}
    for p in pts:
        per[p["scenario"]] = per.get(p["scenario"], 0) + 1
    stats.notes["points_per_scenario"] = per
    rule = ("for each scenario the set of close instants = every instant at which the reference run processed a timer or "
            "datagram, +-1 ms; x async_close / sync close from outside the loop; afterwards second close, 3 h of virtual "
            "time and 9 rounds of fresh queries/responses; outcomes = distinct (close duration, traffic during close, "
            "last callbacks)")
    assumptions = [
        "a lookup or registration coroutine that was already running may still *return* after close (its own task "
        "finishing is not a listener/browser/lookup callback); it must not transmit or raise",
        "traffic sent at closed sockets is not delivered (a closed asyncio datagram transport receives nothing)",
        "browsers are AsyncServiceBrowser objects (created directly or through async_add_service_listener) except in the "
        "threaded-browser points, which run the sync API's ServiceBrowser in its real OS thread with a listener callback "
        "that outlasts the close request by 0.05..11 real seconds - a fixed menu of durations, not an exploration of "
        "thread interleavings",
    ]
    return stats, rule, assumptions, {"points": len(pts)}


def replay(data: Dict[str, Any]) -> int:
    p = dict(data["point"])
    v, o1, _ = run_point(p, verbose=True)
    if o1 != run_point(p)[1]:
        print("HARNESS-ERROR: replay is not deterministic")
        return 2
    if v:
        print("VIOLATION reproduced:", v["what"])
        for x in v["replay"]["problems"]:
            print("   ", x)
        return 1
    print("no violation on this tree")
    return 0
