"""C09 - registration probes first, detects conflicts, then announces completely (E1, full product)."""
from __future__ import annotations

import itertools
from typing import Any, Dict, List, Optional, Set, Tuple

from .. import wire
from ..explore import Stats, digest, explore_product
from ..models.cache_model import ident
from ..models.responder_model import Svc
from ..scen import Decoded, RandPolicy, decoded_trace, make_info
from ..world import HarnessError, World

ID = "C09"
TECHNIQUE = ("stateless exploration of the full product grid (arrival time of a conflicting pointer record relative to "
             "the three probe instants x renaming allowed or not x pre-populated chains of taken '-N' names x second "
             "conflict during the renamed cycle x address mix x custom TTLs; conflicts delivered by a scripted peer or by "
             "a second real instance over a link with one-way delay 1..150 ms) on real instances; trace oracle for "
             "probe/announcement schedule and content, outcome oracle for exception / final name")

TA = "_a._tcp.local."
V4, V6 = bytes([10, 0, 0, 1]), bytes.fromhex("fe800000000000000000000000000001")
ADDR_MIX = {"v4": ([V4], []), "v6": ([], [V6]), "dual": ([V4, bytes([10, 0, 0, 2])], [V6]), "none": ([], [])}
CONFLICT_TIMES = [None, -100, 0, 1, 100, 174, 175, 176, 300, 349, 350, 351, 500]


def svc(mix: str, ttls: str, name: str = "s1._a._tcp.local.", cased: bool = False) -> Svc:
    v4, v6 = ADDR_MIX[mix]
    host_ttl, other_ttl = (120, 4500) if ttls == "default" else (30, 2000)
    if cased:
        # capitals in instance, type and host name (everything on the wire is compared case-insensitively)
        return Svc("_A._tcp.local.", "S1 Speaker._A._tcp.local.", "H1.Local.", 80, b"\x03a=b", v4, v6, host_ttl, other_ttl)
    return Svc(TA, name, "h1.local.", 80, b"\x03a=b", v4, v6, host_ttl, other_ttl)


def points(tier: str) -> List[Dict[str, Any]]:
    pts: List[Dict[str, Any]] = []
    mixes = list(ADDR_MIX)
    for mix, ttls in itertools.product(mixes, ("default", "custom")):
        for allow in (False, True):
            for tc in (CONFLICT_TIMES if tier == "quick" else CONFLICT_TIMES + [t for t in range(-50, 520, 10) if t not in CONFLICT_TIMES]):

                c2s = [None] if not (allow and tc is not None and tc < 350) else [None, 100, 349, 351]
                for c2 in c2s:
                    pts.append({"kind": "peer", "mix": mix, "ttls": ttls, "allow": allow, "tc": tc, "c2": c2, "chain": 0})
            for chain in (1, 2, 3):
                pts.append({"kind": "peer", "mix": mix, "ttls": ttls, "allow": allow, "tc": None, "c2": None, "chain": chain})
    # a description object that is not fresh: its records were already built (memoised) by an earlier use, or it was
    # registered and withdrawn before; and a TTL given to the registration call instead of the description
    for mix, allow, tc in itertools.product(mixes, (False, True), (None, 100)):
        for used in ("built", "reregistered"):
            for ttl_arg in (None, 300):
                pts.append({"kind": "peer", "mix": mix, "ttls": "default", "allow": allow, "tc": tc, "c2": None, "chain": 0,
                            "used": used, "ttl_arg": ttl_arg})
    # pre-populated cache whose conflicting pointers (TTL 4500 s) were learnt 30 / 60 / 90 / 99.9 % of their TTL ago
    for allow, chain, age in itertools.product((False, True), (1, 2), (1_350_000, 2_700_000, 4_050_000, 4_495_000)):
        pts.append({"kind": "peer", "mix": "v4", "ttls": "default", "allow": allow, "tc": None, "c2": None, "chain": chain,
                    "chain_age_ms": age})
    for allow, chain in itertools.product((False, True), (1, 2)):
        pts.append({"kind": "peer", "mix": "v4", "ttls": "default", "allow": allow, "tc": None, "c2": None, "chain": chain,
                    "respelled": True})
    # names with capitals
    for mix, allow, tc in itertools.product(("v4", "dual", "none"), (False, True), (None, -100, 100, 300)):
        pts.append({"kind": "peer", "mix": mix, "ttls": "default", "allow": allow, "tc": tc, "c2": None, "chain": 0,
                    "cased": True})
    # no host name given: the library then uses the instance name as host name - which instance name, if it renames?
    for mix, allow, tc in itertools.product(("v4", "dual"), (False, True), (None, -100, 100, 300)):
        pts.append({"kind": "peer", "mix": mix, "ttls": "default", "allow": allow, "tc": tc, "c2": None, "chain": 0,
                    "noserver": True})
    # ... and such a description object that was registered (and withdrawn) once before: its host name was defaulted then
    for mix, allow, tc in itertools.product(("v4", "dual"), (False, True), (None, -100, 100)):
        pts.append({"kind": "peer", "mix": mix, "ttls": "default", "allow": allow, "tc": tc, "c2": None, "chain": 0,
                    "noserver": True, "used": "reregistered"})
    # unrelated traffic: responses that put *new* records of other services into the cache while the registration waits
    # between two probes (every new record wakes all waiters of the instance)
    for noise in ((40, 80), (200,), (40, 80, 200, 260), (174, 349), (1, 176)):
        for allow, tc in itertools.product((False, True), (None, 100, 250, 300, 349)):
            pts.append({"kind": "peer", "mix": "v4", "ttls": "default", "allow": allow, "tc": tc, "c2": None, "chain": 0,
                        "noise": list(noise)})
    for delay in (1, 50, 100, 150):
        for allow in (False, True):
            for mix in ("v4", "dual"):
                pts.append({"kind": "instance", "mix": mix, "ttls": "default", "allow": allow, "delay": delay})
    for allow, coop in itertools.product((False, True), repeat=2):
        pts.append({"kind": "twice", "mix": "v4", "ttls": "default", "allow": allow, "coop": coop})
        # ... a name with capitals (the registry files it under its lower-cased spelling), and a second registration that
        # starts while the first is still probing (neither has announced anything the other could find in the cache)
        pts.append({"kind": "twice", "mix": "v4", "ttls": "default", "allow": allow, "coop": coop, "cased": True})
        for cased in (False, True):
            pts.append({"kind": "twice", "mix": "v4", "ttls": "default", "allow": allow, "coop": coop, "cased": cased,
                        "overlap_ms": 100})
    return pts


def nth_name(base: str, n: int) -> str:
    inst, rest = base.split(".", 1)
    return base if n <= 1 else f"{inst}-{n}.{rest}"


def check_announcements(problems: List[str], trace: List[Decoded], desc: Svc, final_name: str, t_first: float,
                        t0: float, forbidden: Set[str]) -> None:
    """Three complete announcements at t_first, +225, +450 under `final_name`; nothing for forbidden names."""
    want = Svc(desc.type, final_name, desc.server, desc.port, desc.text, desc.v4, desc.v6, desc.host_ttl, desc.other_ttl)
    must = {ident(want.ptr()): want.other_ttl, ident(want.srv()): want.host_ttl, ident(want.txt()): want.other_ttl}
    for a in want.addrs():
        must[ident(a)] = want.host_ttl
    responses = [d for d in trace if d.is_response and d.multicast]
    full = []
    for d in responses:
        got = {ident(r): r for r in d.msg.answers if r[0] != "RAW"}
        if set(must) <= set(got):
            full.append(d)
            for i, ttl in must.items():
                r = got[i]
                if r[3] != ttl:
                    problems.append(f"announce: {i} announced with TTL {r[3]}, configured {ttl}")
                if bool(r[2] & 0x8000) != (r[0] != "PTR"):
                    problems.append(f"announce: cache-flush bit {bool(r[2] & 0x8000)} on {r[0]} in an announcement")
            nsec = [r for r in d.msg.answers if r[0] == "NSEC"]
            if want.missing():
                if not any(tuple(sorted(r[5])) == tuple(sorted(want.missing())) and r[3] == want.host_ttl and r[2] & 0x8000
                           for r in nsec):
                    problems.append(f"announce: announcement at +{d.t_ms - t0:.0f} lacks the NSEC record for {want.missing()}")
            elif nsec:
                problems.append("announce: NSEC record announced although both address types exist")
            extra = set(got) - set(must) - {i for i in got if i[0] == "NSEC"}
            if extra:
                problems.append(f"announce: unexpected records {sorted(extra, key=repr)} in an announcement")
    times = [round(d.t_ms - t_first, 3) for d in full]
    # the host may additionally answer its own looped-back third probe (same records, at the first instant + 0.1 ms)
    sched = [t for t in times if t in (0.0, 225.0, 450.0)]
    if sched != [0.0, 225.0, 450.0]:
        problems.append(f"announce: complete announcements at +{times} ms relative to the end of probing, expected "
                        f"[0, 225, 450]")
    for t in times:
        if t not in (0.0, 225.0, 450.0) and not (0 < t <= 1.0):
            problems.append(f"announce: extra complete announcement at +{t} ms")
    for d in trace:
        if not d.is_response:
            continue
        for r in d.msg.records():
            if r[3] > 0 and r[0] != "RAW":
                names = {r[1].lower()} | ({r[4].lower()} if r[0] == "PTR" else set())
                if names & forbidden:
                    problems.append(f"conflict: {r[0]} record for the conflicting name sent at +{d.t_ms - t0:.0f} ms: "
                                    f"{d.brief()}")
                    return


def check_probes(problems: List[str], trace: List[Decoded], cycles: List[Tuple[float, str, Optional[float]]], t0: float) -> None:
    """cycles: (start time, proposed name, time the cycle was abandoned or None)."""
    probes = [d for d in trace if not d.is_response and d.msg.authorities]
    want: List[Tuple[float, str]] = []
    for start, name, stop in cycles:
        for k in range(3):
            t = start + 175 * k
            if stop is not None and t >= stop:
                if t == stop:
                    want.append((t, "?" + name))  # a probe in the very instant of the conflict: either
                break
            want.append((t, name))
    got = []
    for d in probes:
        m = d.msg
        ok = (len(m.questions) == 1 and m.questions[0][1].lower() == TA and m.questions[0][2] == 12 and
              m.questions[0][3] & 0x8000 and len(m.authorities) == 1 and m.authorities[0][0] == "PTR" and
              not m.answers and d.multicast)
        if not ok:
            problems.append(f"probe: malformed probe at +{d.t_ms - t0:.0f}: {d.brief()}")
            continue
        got.append((d.t_ms, m.authorities[0][4]))
    must = [(round(t - t0, 3), n) for t, n in want if not n.startswith("?")]
    may = [(round(t - t0, 3), n[1:]) for t, n in want if n.startswith("?")]
    have = [(round(t - t0, 3), n) for t, n in got]
    rest = [x for x in have if x not in may]
    if rest != must:
        problems.append(f"probe: probes (time, proposed name) {have}, expected {must}" + (f" (+ optionally {may})" if may else ""))


def run_point(p: Dict[str, Any], verbose: bool = False) -> Tuple[Optional[Dict[str, Any]], str, int]:
    from zeroconf._exceptions import NonUniqueNameException, ServiceNameAlreadyRegistered

    problems: List[str] = []
    desc = svc(p["mix"], p["ttls"], cased=bool(p.get("cased")))
    with World(rand=RandPolicy.const(0.0)) as w:
        b = None
        if p["kind"] == "instance":
            # the owner of the name is up and has announced before the registering host even starts (empty cache)
            delay_us = p["delay"] * 1000
            w.net.policy = lambda s, src, dst: [delay_us]
            b = w.new_zeroconf(name="owner")
            w.run_coro(_reg_plain(b, make_info(svc(p["mix"], p["ttls"]))))
            w.advance(2000)
        a = w.new_zeroconf(name="registrant")
        result: Dict[str, Any] = {}
        info = make_info(desc)
        if p.get("noserver"):
            from zeroconf import ServiceInfo
            info = ServiceInfo(desc.type, desc.name, desc.port, desc.weight, desc.priority, desc.text, None, desc.host_ttl,
                               desc.other_ttl, addresses=desc.v4 + desc.v6)
        if p.get("used") == "built":
            info.dns_pointer(), info.dns_service(), info.dns_text(), info.dns_addresses(), info.dns_nsec([1, 28])
            info.get_address_and_nsec_records()
        elif p.get("used") == "reregistered":
            w.run_coro(_reg_plain(a, info))
            w.advance(2000)
            w.run_coro(_unreg_plain(a, info))
            w.advance(15_000)  # the looped-back goodbyes have expired the host's own cached copies
        t0 = w.now_ms + 1000
        reg_kw: Dict[str, Any] = {}
        if p.get("ttl_arg"):
            reg_kw["ttl"] = p["ttl_arg"]
            desc = Svc(desc.type, desc.name, desc.server, desc.port, desc.text, desc.v4, desc.v6, p["ttl_arg"], p["ttl_arg"])

        async def reg(i: Any, **kw: Any) -> None:
            try:
                task = await a.zc.async_register_service(i, **kw)
                await task
                result["ok"] = i.name
            except (NonUniqueNameException, ServiceNameAlreadyRegistered) as e:
                result["exc"] = type(e).__name__
            result["t"] = w.now_ms

        def conflict_pkt(name: str, n: int) -> bytes:
            return wire.encode(n, 0x8400, (), [("PTR", TA, 1, 4500, name)])

        cycles: List[Tuple[float, str, Optional[float]]] = []
        forbidden: Set[str] = set()
        final_name: Optional[str] = desc.name
        expect_exc = False
        ambiguous = False
        if p["kind"] == "peer":
            if p.get("respelled"):
                # the owner first announced its name in another letter case, and afterwards in exactly our spelling
                for k in range(p["chain"]):
                    w.net.inject(a, conflict_pkt(nth_name(desc.name, k + 1).upper(), 30 + k), ("10.0.0.60", 5353))
                w.settle()
                w.advance(5000)
                t0 = w.now_ms + 1000
            for k in range(p["chain"]):
                w.net.inject(a, conflict_pkt(nth_name(desc.name, k + 1), 10 + k), ("10.0.0.60", 5353))
            w.settle()
            if p.get("chain_age_ms"):
                # the taken names were learnt a while ago (their owner keeps silent during the probes): a cached pointer
                # counts as a conflict for as long as it has not expired
                w.advance(p["chain_age_ms"])
                t0 = w.now_ms + 1000
            tc, c2 = p["tc"], p["c2"]
            for k, off in enumerate(p.get("noise") or ()):
                other = wire.encode(70 + k, 0x8400, (), [("PTR", "_other._tcp.local.", 1, 4500, f"n{k}._other._tcp.local."),
                                                         ("A", f"n{k}.local.", 0x8001, 120, bytes([10, 0, 9, k]))])
                w.loop.call_at((t0 + off) / 1000, w.net.inject, a, other, ("10.0.0.63", 5353))
            if tc is not None:
                w.loop.call_at((t0 + tc) / 1000, w.net.inject, a, conflict_pkt(desc.name, 1), ("10.0.0.60", 5353))
            w.advance_to_ms(t0)
            # expected course of events
            if p["chain"]:
                forbidden |= {nth_name(desc.name, k + 1).lower() for k in range(p["chain"])}
                if not p["allow"]:
                    expect_exc = True
                else:
                    final_name = nth_name(desc.name, p["chain"] + 1)
                    cycles.append((t0, final_name, None))
            elif tc is None or tc > 350:
                cycles.append((t0, desc.name, None))
            elif tc == 350:
                ambiguous = True
            else:
                d_t = t0 + max(tc, 0)
                forbidden.add(desc.name.lower())
                if tc > 0:
                    cycles.append((t0, desc.name, d_t))
                if not p["allow"]:
                    expect_exc = True
                else:
                    n2 = nth_name(desc.name, 2)
                    if c2 is not None:
                        w.loop.call_at((d_t + c2) / 1000, w.net.inject, a, conflict_pkt(n2, 2), ("10.0.0.61", 5353))
                    if c2 is not None and c2 < 350:
                        forbidden.add(n2.lower())
                        cycles.append((d_t, n2, d_t + c2))
                        final_name = nth_name(desc.name, 3)
                        cycles.append((d_t + c2, final_name, None))
                    else:
                        final_name = n2
                        cycles.append((d_t, n2, None))
            task = w.spawn(reg(info, allow_name_change=p["allow"], **reg_kw))
        elif p["kind"] == "instance":
            w.advance_to_ms(t0)
            # A's first probe reaches B after `delay`, B's reply reaches A after another `delay`
            d_t = t0 + 2 * p["delay"]
            forbidden.add(desc.name.lower())
            cycles.append((t0, desc.name, d_t))
            if not p["allow"]:
                expect_exc = True
            else:
                final_name = nth_name(desc.name, 2)
                cycles.append((d_t, final_name, None))
            task = w.spawn(reg(info, allow_name_change=p["allow"]))
        else:  # the same name twice on one instance
            w.advance_to_ms(t0)
            first_result: Dict[str, Any] = {}
            if p.get("overlap_ms"):
                async def first() -> None:
                    try:
                        await _reg_plain(a, info)
                        first_result["ok"] = info.name
                    except Exception as e:  # noqa: BLE001
                        first_result["exc"] = type(e).__name__
                w.spawn(first())
                w.advance(p["overlap_ms"])
            else:
                w.run_coro(_reg_plain(a, info))
                first_result["ok"] = info.name
                w.advance(3000)
            t0 = w.now_ms
            second = make_info(Svc(desc.type, desc.name, "h9.local.", desc.port + 1, desc.text, [bytes([10, 0, 0, 9])], []))
            task = w.spawn(reg(second, allow_name_change=p["allow"], cooperating_responders=p["coop"]))
            w.advance(5000)
            names = [i.name.lower() for i in a.zc.registry.async_get_service_infos()]
            if len(names) != len(set(names)):
                problems.append(f"twice: registry holds {names}")
            both = [r["ok"].lower() for r in (first_result, result) if "ok" in r]
            if len(both) != len(set(both)):
                problems.append(f"twice: the same name was registered a second time on one instance ({both})")
            # whatever the registry holds under the name, only one description of it may have been announced
            srvs = set()
            for d in decoded_trace(w, a.name):
                if d.is_response and d.multicast:
                    for r in d.records():
                        if r[0] == "SRV" and r[1].lower() == desc.name.lower() and r[3] > 0:
                            srvs.add((r[6], str(r[7]).lower()))
            if len(srvs) > 1:
                problems.append(f"twice: the name was announced with two different SRV records {sorted(srvs)}")
            if "ok" not in result and "exc" not in result:
                problems.append("twice: second registration neither returned nor raised")
            obs = digest((result.get("ok"), result.get("exc")))
            verdict = None
            if problems:
                verdict = {"what": f"C09 {p}: {problems[0]}", "replay": {"problems": problems}, "signature": {"check": "twice"}}
            return verdict, obs, w.loop.handles_run
        n0 = 0
        w.advance_to_ms(t0 + 4000)
        # a query afterwards: the conflicting name must not be answered for
        w.net.inject(a, wire.query([("Q", TA, 12, 1), ("Q", desc.name, 33, 1)], id_=99), ("10.0.0.62", 5353))
        w.advance(1500)
        trace = [Decoded(s) for s in w.net.trace if s.host == a.name and s.t_us / 1000 >= t0 - 0.5]
        if ambiguous:
            pass  # conflict in the very instant of the last probe check: no claim beyond "no exception in the loop"
        elif expect_exc:
            if result.get("exc") != "NonUniqueNameException":
                problems.append(f"outcome: expected NonUniqueNameException, got {result}")
            check_probes(problems, trace, cycles, t0)
            for d in trace:
                if d.is_response and any(r[3] > 0 and desc.name.lower() in (r[1].lower(), str(r[4]).lower() if r[0] == "PTR" else "")
                                         for r in d.msg.records() if r[0] != "RAW"):
                    problems.append(f"conflict: records of the conflicting name transmitted: {d.brief()}")
                    break
        else:
            if result.get("ok") != final_name:
                problems.append(f"outcome: expected registration under {final_name}, got {result}")
            else:
                check_probes(problems, trace, cycles, t0)
                last_start = cycles[-1][0]
                want_desc = desc
                if p.get("noserver"):
                    # the host name defaults to the name the service is finally registered under
                    want_desc = Svc(desc.type, desc.name, final_name, desc.port, desc.text, desc.v4, desc.v6,
                                    desc.host_ttl, desc.other_ttl)
                check_announcements(problems, trace, want_desc, final_name, last_start + 350, t0, forbidden)
                if info.name != final_name:
                    problems.append(f"outcome: ServiceInfo.name is {info.name}, registered as {final_name}")
        excs = w.exceptions()
        if excs:
            problems.append(f"exception in the event loop: {excs[0]}")
        obs = digest((result.get("ok"), result.get("exc"), [(round(d.t_ms - t0, 3), d.sent.dest[:2], d.sent.data) for d in trace]))
        if verbose:
            print("    result", result, "cycles", [(round(s - t0), n, None if e is None else round(e - t0)) for s, n, e in cycles])
            for d in trace:
                print(f"    +{d.t_ms - t0:.1f}", d.brief()[:220])
    verdict = None
    if problems:
        verdict = {"what": f"C09 {p}: {problems[0][:600]}", "replay": {"problems": problems[:5]},
                   "signature": {"check": problems[0].split(":")[0]}}
    return verdict, obs, w.loop.handles_run


async def _unreg_plain(host: Any, info: Any) -> None:
    task = await host.zc.async_unregister_service(info)
    await task


async def _reg_plain(host: Any, info: Any) -> None:
    task = await host.zc.async_register_service(info)
    await task


def run(tier: str, seed: int) -> Tuple[Stats, str, List[str], Dict[str, Any]]:
    stats = Stats()
    pts = points(tier)
    for k in (3, len(pts) - 9):
        if run_point(pts[k])[1] != run_point(pts[k])[1]:
            raise HarnessError("C09 scenario is not deterministic")
    explore_product(run_point, pts, stats, f"C09/{tier}")
    stats.states = len(stats.outcomes)
    rule = ("full product grid; one execution = (optional pre-populated conflicts), async_register_service at T, scripted "
            "conflict(s) at T+t or a second real instance owning the name behind a link with fixed one-way delay, run "
            "4 s, a query for the type and the original name, 1.5 s more; outcomes = distinct (result, trace)")
    assumptions = [
        "a conflict that arrives in the very instant of the last probe check (T+350 ms) may go either way",
        "the host may answer its own looped-back third probe (the service is already in its registry): one extra "
        "complete reply within 1 ms of the first announcement is tolerated",
        "a probe due in the very instant a conflict arrives may or may not be sent",
        "the conflicting record spells the name exactly like the registration (as the quantifier says)",
    ]
    return stats, rule, assumptions, {"points": len(pts)}


def replay(data: Dict[str, Any]) -> int:
    p = dict(data["point"])
    v, o1, _ = run_point(p, verbose=True)
    if o1 != run_point(p)[1]:
        print("HARNESS-ERROR: replay is not deterministic")
        return 2
    if v:
        print("VIOLATION reproduced:", v["what"])
        for x in v["replay"]["problems"]:
            print("   ", x)
        return 1
    print("no violation on this tree")
    return 0
