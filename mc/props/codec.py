"""Shared E3 enumeration for C01 (codec round trip) and C14 (size limits / section accounting)."""
from __future__ import annotations

import itertools
from typing import Any, Dict, Iterator, List, Optional, Sequence, Tuple

from .. import wire
from ..explore import Stats, enumerate_inputs
from ..libconv import incoming_sections, norm, to_lib
from ..world import install_seams

IN, FL = 1, 0x8001
F_QUERY, F_RESP = 0x0000, 0x8400
MAX_ABS, MAX_TYP = 8966, 1460

L62, L63, L64, L65 = "a" * 62, "b" * 63, "c" * 64, "d" * 65
U63, U64, U3 = "é" * 31 + "a", "é" * 32, "€" * 21  # 63 / 64 / 63 bytes in 32 / 32 / 21 characters

NAMES_FULL = ["local.", "_a._tcp.local.", "_A._tcp.local.", "x._a._tcp.local.", "y.x._a._tcp.local.",
              "Dotted.Inst._a._tcp.local.", "ünï._a._tcp.local.", "h.local.", "other.example.",
              f"{L62}.local.", f"{L63}.local.", f"{L64}.local.", f"{L65}.local.", f"{U63}.local.", f"{U64}.local.",
              f"{U3}._a._tcp.local.", f"x.{L63}.local.", "drucker.büro.local.", "scanner.büro.local.",
              "Etage 1.Café €._a._tcp.local.",
              # the longest name of the quantifier (253 characters with its dot, 254 octets on the wire), and a name of only
              # 138 characters that needs 263 octets on the wire (RFC 1035 allows 255)
              f"{L63}.{L63}.{L63}.{'e' * 60}.", f"{U63}.{U63}.{U63}.{U63}.local.",
              # text that is not in Unicode normalisation form C (a decomposed accent, conjoining jamo, a compatibility
              # singleton): it has to come back as spelled; the first of them in front of a suffix another name shares
              "e\u0301.zz.local.", "q.zz.local.", "\u1100\u1161\u212b.local."]
NAMES_RED = ["local.", "_a._tcp.local.", "_A._tcp.local.", "x._a._tcp.local.", "y.x._a._tcp.local.", "h.local.",
             f"{L63}.local.", "drucker.büro.local.", "scanner.büro.local.", "e\u0301.zz.local."]
IP4, IP6 = b"\x0a\x00\x00\x01", bytes.fromhex("fe80000000000000000000000000abcd")


def entries_full() -> List[tuple]:
    out: List[tuple] = []
    for n in NAMES_FULL:
        out += [("Q", n, 12, IN), ("Q", n, 255, FL), ("A", n, IN, 120, IP4), ("TXT", n, FL, 4500, b"\x01a")]
    for o in NAMES_RED:
        for t in NAMES_RED:
            out += [("PTR", o, IN, 4500, t), ("SRV", o, FL, 120, 0, 0, 80, t), ("NSEC", o, FL, 120, t, (1, 28))]
    out += specials()
    return out


def specials() -> List[tuple]:
    h, x = "h.local.", "x._a._tcp.local."
    out = [("AAAA", h, FL, 120, IP6), ("CNAME", h, IN, 120, x), ("CNAME", f"{L64}.local.", IN, 120, f"{L64}.local."),
           ("TXT", x, IN, 4500, b""), ("TXT", x, IN, 4500, b"\xff" * 255), ("TXT", x, IN, 4500, b"\x00" * 256),
           ("HINFO", h, IN, 120, "", ""), ("HINFO", h, FL, 120, "c" * 255, "o"), ("HINFO", h, IN, 120, "çpü", "ö" * 127),
           ("NSEC", h, FL, 120, h, (1,)), ("NSEC", h, FL, 120, h, (255,)), ("NSEC", h, FL, 120, h, tuple(range(1, 256, 7))),
           # type lists whose highest type is the first bit of a bitmap octet (multiples of 8), and the lowest types
           ("NSEC", h, FL, 120, h, (16,)), ("NSEC", h, FL, 120, h, (1, 16)), ("NSEC", h, FL, 120, h, (8,)),
           ("NSEC", h, FL, 120, h, (1, 28, 48)), ("NSEC", h, FL, 120, h, (7, 248)), ("NSEC", h, FL, 120, h, (1, 2, 3, 4, 5, 6, 7)),
           ("SRV", x, IN, 120, 65535, 65535, 65535, h), ("SRV", x, FL, 120, 1, 2, 3, x),
           # rdata names that cannot be compressed against anything earlier: they end in an explicit root octet, which is
           # the very last octet of the datagram when the record comes last
           ("PTR", "4.3.2.1.in-addr.arpa.", IN, 120, "host.example."), ("SRV", x, FL, 120, 0, 0, 80, "target.example."),
           ("CNAME", h, IN, 120, "alias.example."), ("NSEC", h, FL, 120, "next.example.", (1,)),
           # the root name (no label at all): an SRV target of "." says that the service is not available (RFC 2782)
           ("SRV", x, FL, 120, 0, 0, 0, "."), ("PTR", "b._dns-sd._udp.local.", IN, 120, "."), ("Q", ".", 255, IN),
           ("TXT", ".", IN, 120, b"\x01a")]
    for ttl in (0, 1, 119, 4500, 2 ** 31, 2 ** 32 - 1):
        out.append(("A", h, IN, ttl, IP4))
        out.append(("PTR", "_a._tcp.local.", FL, ttl, x))
    return out


def entries_reduced() -> List[tuple]:
    out: List[tuple] = []
    names = ["_a._tcp.local.", "x._a._tcp.local.", "y.x._a._tcp.local.", "h.local.", f"{L63}.local.", "a.bü.local.", "b.bü.local."]
    for n in names:
        out += [("Q", n, 12, FL), ("A", n, FL, 120, IP4)]
    for o in names[:4]:
        for t in names[:4]:
            out += [("PTR", o, IN, 4500, t), ("SRV", o, FL, 120, 0, 0, 80, t)]
    out += [("TXT", "x._a._tcp.local.", FL, 4500, b"\x01a"), ("NSEC", "h.local.", FL, 120, "h.local.", (1, 28)),
            ("HINFO", "h.local.", IN, 120, "çpü", "os"), ("AAAA", "h.local.", FL, 120, IP6),
            ("A", f"{L64}.local.", IN, 120, IP4)]
    return out


SECTIONS = ("q", "an", "au", "ad")


def placements(entries: Sequence[tuple]) -> List[Tuple[tuple, str]]:
    out = []
    for e in entries:
        if e[0] == "Q":
            out.append((e, "q"))
        else:
            for s in ("an", "au", "ad"):
                if s == "au" and e[0] not in ("PTR", "CNAME"):
                    # add_authorative_answer is typed for pointers but takes any record; keep a few others too
                    if e[0] not in ("A", "SRV"):
                        continue
                out.append((e, s))
    return out


MODES = [(F_QUERY, True, 0), (F_RESP, True, 0), (F_QUERY, False, 0x1234), (F_RESP, False, 0x1234), (F_RESP, True, 0x1234),
         (F_RESP, False, 0)]


def label_too_long(e: tuple) -> bool:
    names = [e[1]]
    if e[0] in ("PTR", "CNAME", "NSEC"):
        names.append(e[4])
    if e[0] == "SRV":
        names.append(e[7])
    return any(len(l) > 63 for n in names for l in wire.labels_of(n))


def name_over_255_octets(e: tuple) -> bool:
    """A name within the 253 characters of the quantifier that needs more than the 255 octets RFC 1035 allows on the wire
    (a length octet per label plus the root label) - only possible with multi-byte characters."""
    names = [e[1]]
    if e[0] in ("PTR", "CNAME", "NSEC"):
        names.append(e[4])
    if e[0] == "SRV":
        names.append(e[7])
    return any(sum(len(l) + 1 for l in wire.labels_of(n)) + 1 > 255 for n in names)


class Case:
    """One message: mode + per-section entry lists (+ `now` for the remaining-TTL path)."""

    __slots__ = ("flags", "multicast", "id", "q", "an", "au", "ad", "now", "big")

    def __init__(self, mode: Tuple[int, bool, int], placed: Sequence[Tuple[tuple, str]], now: float = 0.0,
                 big: bool = False) -> None:
        self.big = big  # holds an entry that does not fit a datagram alone: only size and well-formedness are judged
        self.flags, self.multicast, self.id = mode
        self.q = [e for e, s in placed if s == "q"]
        self.an = [e for e, s in placed if s == "an"]
        self.au = [e for e, s in placed if s == "au"]
        self.ad = [e for e, s in placed if s == "ad"]
        self.now = now

    def as_json(self) -> Dict[str, Any]:
        return {"mode": [self.flags, self.multicast, self.id], "q": self.q, "an": self.an, "au": self.au, "ad": self.ad,
                "now": self.now, "big": self.big}

    @staticmethod
    def from_json(d: Dict[str, Any]) -> "Case":
        placed = [(tuple(e), s) for s in SECTIONS for e in d[s]]
        m = d["mode"]
        return Case((m[0], bool(m[1]), m[2]), placed, d.get("now", 0.0), bool(d.get("big", False)))


CREATED = 1_000_000.0  # creation time of the library records when the remaining-TTL path is used


def build(case: Case) -> Any:
    from zeroconf import DNSOutgoing

    out = DNSOutgoing(case.flags, case.multicast, case.id)
    for e in case.q:
        out.add_question(to_lib(e))
    for e in case.an:
        out.add_answer_at_time(to_lib(e, CREATED), case.now)
    for e in case.au:
        out.add_authorative_answer(to_lib(e, CREATED))
    for e in case.ad:
        out.add_additional_answer(to_lib(e, CREATED))
    return out


def expected_sections(case: Case) -> List[List[tuple]]:
    def cls(c: int) -> int:
        return c if case.multicast else c & 0x7FFF

    def rec(e: tuple, now: float) -> tuple:
        ttl = e[3]
        if now:
            rem = (CREATED + 1000 * ttl - now) / 1000.0
            ttl = int(rem) if rem > 0 else 0
        return norm(e[:2] + (cls(e[2]), ttl) + e[4:])

    q = [("Q", e[1], e[2], cls(e[3])) for e in case.q]
    an = [rec(e, case.now) for e in case.an if not (case.now and CREATED + 1000 * e[3] <= case.now)]
    return [q, an, [rec(e, 0) for e in case.au], [rec(e, 0) for e in case.ad]]


def check_case(case: Case, prop: str) -> Tuple[Optional[str], str]:
    """Returns (problem or None, outcome class). prop selects which oracle parts count: 'C01' | 'C14'."""
    from zeroconf import DNSIncoming
    from zeroconf._exceptions import NamePartTooLongException

    entries = case.q + case.an + case.au + case.ad
    try:
        msg = build(case)
        packets = msg.packets()
        # the sender reads a message more than once (every goodbye of unregister-all is the same object): the sequence is
        # what it is, however often it is asked for
        for again in (2, 3):
            if msg.packets() != packets:
                return (f"packets() read the {again}. time gives another sequence: {[len(x) for x in msg.packets()]} bytes, "
                        f"first {[len(x) for x in packets]}"), "bad"
    except NamePartTooLongException:
        if any(label_too_long(e) for e in entries):
            return None, "rejected:NamePartTooLong"
        return "NamePartTooLongException although every label is <= 63 bytes", "bad"
    except Exception as e:  # noqa: BLE001
        return f"packets() raised {type(e).__name__}: {e}", "bad"
    want = expected_sections(case)
    got_lib: List[List[tuple]] = [[], [], [], []]
    got_ref: List[List[tuple]] = [[], [], [], []]
    n_entries_total = sum(len(s) for s in want)
    is_query = (case.flags & 0x8000) == 0
    c14 = prop == "C14"
    over255 = False
    for pi, p in enumerate(packets):
        lastp = pi == len(packets) - 1
        if (c14 or case.big) and len(p) > MAX_ABS:
            return f"datagram {pi} is {len(p)} bytes (> {MAX_ABS})", "bad"
        try:
            ref = wire.strict_decode(p)
        except wire.Reject as e:
            if str(e) != "name too long" or not any(name_over_255_octets(x) for x in entries):
                return f"independent decoder rejects datagram {pi} (corrupt, or header counts != entries present): {e}", "bad"
            # the shape of the open finding: a name of the message needs more than 255 octets on the wire and the builder
            # emitted it; the rest of the datagram is still compared
            over255 = True
            try:
                ref = wire.strict_decode(p, max_name=1 << 20)
            except wire.Reject as e2:
                return f"independent decoder rejects datagram {pi} (corrupt, or header counts != entries present): {e2}", "bad"
        secs = [ref.questions, ref.answers, ref.authorities, ref.additionals]
        count = sum(len(s) for s in secs)
        # every datagram of the sequence is a datagram of THIS message: the id it was built with (0 when multicast) and its
        # flags (the TC bit apart)
        want_id = 0 if case.multicast else case.id
        if ref.id != want_id or (ref.flags & ~wire.F_TC) != (case.flags & ~wire.F_TC):
            return (f"datagram {pi} of {len(packets)} carries id {ref.id:#x} flags {ref.flags:#x}, the message was built with "
                    f"id {want_id:#x} flags {case.flags:#x}"), "bad"
        if case.big:
            continue
        if c14:
            if len(p) > MAX_TYP and count != 1:
                return f"datagram {pi} is {len(p)} bytes (> {MAX_TYP}) with {count} entries", "bad"
            if count == 0 and n_entries_total:
                return f"datagram {pi} is empty", "bad"
            tc = bool(ref.flags & wire.F_TC)
            if tc != (is_query and not lastp):
                return f"datagram {pi} of {len(packets)} ({'query' if is_query else 'response'}) has TC={tc}", "bad"
        for k in range(4):
            got_ref[k] += [norm(e) for e in secs[k]]
        if not c14:
            msg = DNSIncoming(p)
            if not msg.valid:
                return f"the library's decoder marks datagram {pi} invalid", "bad"
            ls = incoming_sections(msg)
            for k in range(4):
                got_lib[k] += [norm(e) for e in ls[k]]
    if case.big:
        return None, "ok:oversize-entry"
    if c14:
        def key(secs: List[List[tuple]]) -> List[List[tuple]]:
            return [[(e[0], e[1]) for e in s] for s in secs]
        if key(got_ref) != key(want):
            return (f"entries present over the datagram sequence {key(got_ref)} != entries of the message {key(want)} "
                    f"(each must appear exactly once, section order kept)"), "bad"
    else:
        if got_ref != want:
            return f"independent decoder recovers {got_ref}, message was {want}", "bad"
        if got_lib != want:
            return f"library decoder recovers {got_lib}, message was {want}", "bad"
    if over255 and not c14:
        return ("name-over-255-octets: a name of the message takes more than the 255 octets RFC 1035 allows on the wire; the "
                "builder emitted it and an RFC 1035 decoder rejects the datagram (everything else round-trips)"), "bad"
    return None, f"ok:{len(packets)}pkt" if len(packets) < 3 else "ok:3+pkt"


# --------------------------------------------------------------------------------------------------
# Input spaces
# --------------------------------------------------------------------------------------------------


def seq_space(entries: Sequence[tuple], k: int, modes: Sequence[Tuple[int, bool, int]]) -> Iterator[Case]:
    """All sequences of <= k placed entries (order matters only within a section), simplest first."""
    pl = placements(entries)
    order = {s: i for i, s in enumerate(SECTIONS)}
    for n in range(0, k + 1):
        for combo in itertools.product(range(len(pl)), repeat=n):
            placed = [pl[i] for i in combo]
            secs = [order[s] for _, s in placed]
            if any(secs[i] > secs[i + 1] for i in range(len(secs) - 1)):
                continue  # the same message as the section-sorted sequence
            for m in modes:
                yield Case(m, placed)


def ttl_space() -> Iterator[Case]:
    """Remaining-TTL path: answers written with a non-zero `now`."""
    recs = [("A", "h.local.", FL, ttl, IP4) for ttl in (0, 1, 2, 120, 4500)] + \
           [("PTR", "_a._tcp.local.", IN, ttl, "x._a._tcp.local.") for ttl in (1, 4500)]
    for dt in (1, 999, 1000, 1001, 1999, 60000, 119999, 120000, 120001, 4499999, 4500000):
        for a, b in itertools.product(recs, repeat=2):
            for m in MODES[:4]:
                yield Case(m, [(a, "an"), (b, "an"), (b, "ad")], CREATED + dt)


def boundary_space(tier: str) -> Iterator[Case]:
    """[TXT(pad), r1, r2]: the end of r1 lands on every byte offset around the 1460 limit (rollback of a freshly
    written name and its compression targets); single entries around the 8966 limit."""
    red = [e for e in entries_reduced() if e[0] != "Q" and not label_too_long(e)]
    if tier == "quick":
        red = red[::3]
    span = range(-70, 6) if tier != "quick" else range(-40, 6)
    for r1 in red:
        size1 = len(wire.encode(0, 0, (), [r1], compress=False)) - 12
        for r2 in red:
            for off in span:
                pad = MAX_TYP + off - 12 - 11 - 1 - size1  # header, TXT fixed part with a root-length owner... approx
                if pad < 0:
                    continue
                txt = ("TXT", "p.local.", IN, 4500, b"\x00" * pad)
                for m in (MODES[0], MODES[1]):
                    yield Case(m, [(txt, "an"), (r1, "an"), (r2, "ad" if m[0] else "an")])
    # behind an oversize first entry (second packet starts with the pad)
    big = ("TXT", "big.local.", IN, 4500, b"\x01" * 3000)
    for r1 in red[:6]:
        size1 = len(wire.encode(0, 0, (), [r1], compress=False)) - 12
        for off in range(-30, 6):
            pad = MAX_TYP + off - 12 - 20 - size1
            txt = ("TXT", "p.local.", IN, 4500, b"\x00" * pad)
            yield Case(MODES[1], [(big, "an"), (txt, "an"), (r1, "an"), (red[0], "ad")])
            yield Case(MODES[0], [(("Q", "_a._tcp.local.", 12, IN), "q"), (big, "an"), (txt, "an"), (r1, "an")])
    # a single entry growing through 1460 and up to 8966 (must fit alone: 12 + uncompressed size <= 8966)
    for total in list(range(1440, 1480)) + list(range(8940, MAX_ABS + 1)):
        n = total - 12 - len(b"\x01t\x05local\x00") - 10
        txt = ("TXT", "t.local.", FL, 4500, b"\x07" * n)
        small = ("A", "h.local.", FL, 120, IP4)
        for placed in ([(txt, "an")], [(small, "an"), (txt, "an")], [(txt, "an"), (small, "an")],
                       [(small, "an"), (txt, "an"), (small, "ad")], [(("Q", "t.local.", 16, IN), "q"), (txt, "an")],
                       [(txt, "au")], [(txt, "ad")]):
            for m in MODES[:4]:
                yield Case(m, placed)


    # outside the quantifier (an entry that cannot fit 8966 bytes alone): whatever the builder does with it, no datagram
    # may exceed 8966 bytes or be malformed
    for total in list(range(MAX_ABS + 1, MAX_ABS + 41)) + [9500, 20000, 65536]:
        n = total - 12 - len(b"\x01t\x05local\x00") - 10
        txt = ("TXT", "t.local.", FL, 4500, b"\x07" * n)
        small = ("A", "h.local.", FL, 120, IP4)
        for placed in ([(txt, "an")], [(small, "an"), (txt, "an"), (small, "ad")], [(("Q", "t.local.", 16, IN), "q"), (txt, "an")],
                       [(txt, "au")], [(txt, "ad")]):
            for m in MODES[:4]:
                yield Case(m, placed, big=True)


def count_space(tier: str) -> Iterator[Case]:
    """Section sizes 0..300 (multi-packet output) for several record templates and section mixes."""
    ns = range(0, 301) if tier != "quick" else list(range(0, 40)) + list(range(40, 301, 13)) + [300]
    for n in ns:
        a = [("A", f"h{i}.local.", FL, 120, bytes([10, 0, i >> 8, i & 255])) for i in range(n)]
        p = [("PTR", "_a._tcp.local.", IN, 4500, f"inst{i}._a._tcp.local.") for i in range(n)]
        s = [("SRV", f"inst{i}._a._tcp.local.", FL, 120, 0, 0, 80, f"h{i % 7}.local.") for i in range(n)]
        q = [("Q", f"_t{i}._tcp.local.", 12, IN) for i in range(n)]
        t = [("TXT", f"inst{i}._a._tcp.local.", FL, 4500, bytes([i & 255]) * (i % 200)) for i in range(n)]
        for m in MODES[:4]:
            yield Case(m, [(e, "an") for e in a])
            yield Case(m, [(e, "q") for e in q] + [(e, "an") for e in p])
            yield Case(m, [(e, "an") for e in p] + [(e, "ad") for e in s] + [(e, "ad") for e in a[: n // 2]])
            yield Case(m, [(e, "q") for e in q[: n // 3]] + [(e, "au") for e in p[: n // 2]] + [(e, "ad") for e in t])
            yield Case(m, [(e, "an") for e in t] + [(e, "au") for e in p[:3]])


def spaces(tier: str) -> List[Tuple[str, Iterator[Case]]]:
    if tier == "quick":
        return [("seq<=2/full", seq_space(entries_full(), 2, MODES[:4])),
                ("seq<=1/full/all-modes", seq_space(entries_full(), 1, MODES)),
                ("seq=3/reduced", seq_space(entries_reduced()[::2], 3, MODES[:2])),
                ("remaining-ttl", ttl_space()), ("boundary", boundary_space(tier)), ("counts", count_space(tier))]
    return [("seq<=2/full", seq_space(entries_full(), 2, MODES)),
            ("seq<=3/reduced", seq_space(entries_reduced(), 3, MODES[:4])),
            ("remaining-ttl", ttl_space()), ("boundary", boundary_space(tier)), ("counts", count_space(tier))]


def run_codec(prop: str, tier: str, stats: Stats) -> Dict[str, Any]:
    install_seams()
    import logging
    logging.getLogger("zeroconf").setLevel(logging.ERROR)  # "packets() made no progress" warnings are not the subject

    def check(case: Case) -> Tuple[Optional[Dict[str, Any]], str]:
        problem, oc = check_case(case, prop)
        if problem is None:
            return None, oc
        sig = "label-64" if any(_has_len(e, 64) for e in case.q + case.an + case.au + case.ad) else "other"
        if problem.startswith("name-over-255-octets"):
            sig = "name-over-255-octets"
        return ({"what": f"{prop} {summary(case)}: {problem[:600]}", "replay": {"case": case.as_json()},
                 "signature": {"check": sig}}, oc)

    sizes = {}
    for name, space in spaces(tier):
        before = stats.executions
        enumerate_inputs(lambda c: _strip(check(c)), space, stats, name, chunk=256, tolerated=("name-over-255-octets",))
        sizes[name] = stats.executions - before
    return sizes


def _strip(r: Tuple[Optional[Dict[str, Any]], str]) -> Tuple[Optional[Dict[str, Any]], str]:
    return r


def _has_len(e: tuple, n: int) -> bool:
    names = [e[1]] + ([e[4]] if e[0] in ("PTR", "CNAME", "NSEC") else []) + ([e[7]] if e[0] == "SRV" else [])
    return any(len(l) == n for nm in names for l in wire.labels_of(nm))


def summary(case: Case) -> str:
    def short(e: tuple) -> str:
        s = repr(e)
        return s if len(s) < 90 else s[:60] + f"...<{len(s)} chars>"
    return (f"[flags={case.flags:#x} multicast={case.multicast} id={case.id} now={case.now} q={[short(e) for e in case.q]} "
            f"an={[short(e) for e in case.an][:4]}{'...' if len(case.an) > 4 else ''} au={[short(e) for e in case.au][:3]} "
            f"ad={[short(e) for e in case.ad][:3]}]")


def replay_case(prop: str, data: Dict[str, Any]) -> int:
    install_seams()
    d = data["case"]
    for s in SECTIONS:
        d[s] = [tuple(e) for e in d[s]]
    case = Case.from_json(d)
    problem, oc = check_case(case, prop)
    print(summary(case))
    if problem:
        print("VIOLATION reproduced:", problem[:2000])
        return 1
    print("no violation on this tree:", oc)
    return 0
