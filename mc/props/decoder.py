"""Adversarial datagram spaces and the decoder oracle shared by C02 (decoder total/bounded/faithful)
and C15 (a running instance survives any datagram)."""
from __future__ import annotations

import itertools
import struct
import sys
from typing import Any, Dict, Iterator, List, Optional, Sequence, Tuple

from .. import wire
from ..libconv import incoming_sections, norm
from . import codec

ALPHA11 = bytes([0x00, 0x01, 0x02, 0x3F, 0x40, 0x41, 0xC0, 0xC1, 0x0C, 0x0D, 0xFF])
ALPHA8 = bytes([0x00, 0x01, 0x3F, 0x40, 0x41, 0xC0, 0x0C, 0xFF])
ALPHA5 = bytes([0x00, 0x01, 0x41, 0xC0, 0x0C])

# call budget (profile events of type call/c_call; measured maxima are reported): A + B * len(datagram) for everything that
# is read once, plus C for every entry the datagram has room for - one name may cost up to 128 labels and 128 pointer hops
# by design (names that decode are remembered, names that fail are not), which is a fixed amount per entry.  A decoder whose
# work per name grows with the datagram (a label run of thousands re-read by every record) exceeds it.
BUDGET_A, BUDGET_B, BUDGET_C = 400, 15, 600


def budget_for(data: bytes) -> int:
    declared = sum(struct.unpack(">HHHH", data[4:12])) if len(data) >= 12 else 0
    return BUDGET_A + BUDGET_B * len(data) + BUDGET_C * min(declared, len(data) // 5)


def header(flags: int, qd: int, an: int, ns: int, ar: int, id_: int = 0) -> bytes:
    return struct.pack(">HHHHHH", id_, flags, qd, an, ns, ar)


HEADERS = [header(f, *c) for f in (0x0000, 0x8400, 0x0200)
           for c in ((0, 0, 0, 0), (1, 0, 0, 0), (2, 0, 0, 0), (0, 1, 0, 0), (0, 0, 1, 0), (0, 0, 0, 1), (1, 1, 0, 0),
                     (1, 0, 1, 0), (65535, 0, 0, 0), (0, 65535, 0, 0))]


def bodies(alpha: bytes, maxlen: int, headers: Sequence[bytes]) -> Iterator[bytes]:
    for n in range(maxlen + 1):
        for t in itertools.product(alpha, repeat=n):
            b = bytes(t)
            for h in headers:
                yield h + b


def structured(alpha: bytes, maxr: int, maxdata: int) -> Iterator[bytes]:
    """Answer records built structurally: owner x type x class x declared rdlength x every rdata."""
    owners = [b"\x01a\x00", b"\x00", b"\xc0\x0c", b"\x01a\xc0\x0c"]
    types = [1, 5, 12, 13, 16, 28, 33, 47, 99]
    for owner in owners:
        for t in types:
            for cls in (1, 0x8001):
                for declared in range(0, maxr + 1):
                    for n in range(0, maxdata + 1):
                        if t in (1, 28, 99, 16) and n > 2 and declared not in (n, 0, maxr):
                            continue  # opaque rdata: only matching / extreme declared lengths once data is long
                        for rd in itertools.product(alpha, repeat=n):
                            fixed = struct.pack(">HHLH", t, cls, 120, declared)
                            yield header(0x8400, 0, 1, 0, 0) + owner + fixed + bytes(rd)


# ------------------------------------------------------------------------------------------------
# (b) name-compression graphs
# ------------------------------------------------------------------------------------------------


def graphs(n: int, label_counts: Sequence[int]) -> Iterator[bytes]:
    """n names: question name, PTR owner, PTR rdata name, then names hidden in a TXT rdata. Each name is
    0..2 labels followed by root / a pointer to any name (self, forward, backward) / a pointer past the end /
    a pointer into the header / a pointer into the middle of another name."""
    terms = ["root"] + [("ptr", j) for j in range(n)] + ["beyond", "header", "mid"]
    per_node = [(k, t) for k in label_counts for t in terms]
    for combo in itertools.product(per_node, repeat=n):
        yield build_graph(combo)


def build_graph(nodes: Sequence[Tuple[int, Any]]) -> bytes:
    n = len(nodes)
    sizes = [2 * k + (1 if t == "root" else 2) for k, t in nodes]
    # layout: header, node0 + qtype/qclass, node1 + fixed(10), node2, [TXT record: owner root(1)+fixed(10)+ node3..]
    offs: List[int] = []
    pos = 12
    for i in range(n):
        if i == 1:
            pos += 4
        elif i == 2:
            pos += 10
        elif i == 3:
            pos += 1 + 10
        offs.append(pos)
        pos += sizes[i]
    total = pos

    def name(i: int) -> bytes:
        k, t = nodes[i]
        out = b"".join(bytes([1, 0x61 + ((i + j) % 26)]) for j in range(k))
        if t == "root":
            return out + b"\x00"
        if t == "beyond":
            target = total + 7
        elif t == "header":
            target = 4
        elif t == "mid":
            target = offs[(i + 1) % n] + 1
        else:
            target = offs[t[1]]
        return out + struct.pack(">H", 0xC000 | (target & 0x3FFF))

    qd = 1
    an = 1 if n >= 2 else 0
    ar = 1 if n >= 4 else 0
    out = bytearray(header(0x8400 if n % 2 else 0x0000, qd, an, 0, ar))
    out += name(0) + struct.pack(">HH", 12, 1)
    if n >= 2:
        rd = name(2) if n >= 3 else b"\x00"
        out += name(1) + struct.pack(">HHLH", 12, 1, 4500, len(rd)) + rd
    if n >= 4:
        rd = b"".join(name(i) for i in range(3, n))
        out += b"\x00" + struct.pack(">HHLH", 16, 1, 4500, len(rd)) + rd
    return bytes(out)


# ------------------------------------------------------------------------------------------------
# (c) parametric families
# ------------------------------------------------------------------------------------------------


def chain(depth: int, forward: bool = True) -> bytes:
    """A question whose name is a chain of `depth` compression pointers ending in a root label."""
    # pointers laid out after the question: q name = pointer to slot 0; slot i -> slot i+1; last slot -> root label
    base = 12 + 2 + 4
    if forward:
        slots = b"".join(struct.pack(">H", 0xC000 | (base + 2 * (i + 1))) for i in range(depth - 1))
        body = struct.pack(">H", 0xC000 | base) + struct.pack(">HH", 12, 1) + slots + b"\x01z\x00"
        return header(0, 1, 0, 0, 0) + body
    # backward chain: slots first (inside an unknown-type additional... simply place them as answer rdata)
    rd = b"\x01z\x00" + b"".join(struct.pack(">H", 0xC000 | (12 + 1 + 10 + (0 if i == 0 else 3 + 2 * (i - 1))))
                                  for i in range(depth))
    rec = b"\x00" + struct.pack(">HHLH", 16, 1, 120, len(rd)) + rd
    last = 12 + 1 + 10 + 3 + 2 * (depth - 1)
    rec2 = struct.pack(">H", 0xC000 | last) + struct.pack(">HHLH", 1, 1, 120, 4) + b"\x01\x02\x03\x04"
    return header(0x8400, 0, 2, 0, 0) + rec + rec2


def label_stack(nlabels: int, lab: bytes = b"a") -> bytes:
    name = b"".join(bytes([len(lab)]) + lab for _ in range(nlabels)) + b"\x00"
    return header(0, 1, 0, 0, 0) + name + struct.pack(">HH", 12, 1)


def long_name(nchars: int) -> bytes:
    """A name whose dotted text (with the trailing dot) has exactly nchars characters."""
    labels = []
    left = nchars - 1  # characters before the trailing dot, incl. separating dots
    while left > 0:
        ln = min(63, left)
        if left - ln == 1:  # would leave a lone dot
            ln -= 1
        labels.append(b"x" * ln)
        left -= ln + 1
    name = b"".join(bytes([len(l)]) + l for l in labels) + b"\x00"
    return header(0x8400, 0, 1, 0, 0) + name + struct.pack(">HHLH", 1, 1, 120, 4) + b"\x01\x02\x03\x04"


def shared_chain(nrecords: int, chain_labels: int) -> bytes:
    """Many records whose owner points at one long name (quadratic-work probe)."""
    name = b"".join(b"\x01a" for _ in range(chain_labels)) + b"\x00"
    first = name + struct.pack(">HHLH", 1, 1, 120, 4) + b"\x01\x02\x03\x04"
    rest = (struct.pack(">H", 0xC00C) + struct.pack(">HHLH", 1, 1, 120, 4) + b"\x01\x02\x03\x04") * (nrecords - 1)
    return header(0x8400, 0, nrecords, 0, 0) + first + rest


def pointer_ladder(n: int) -> bytes:
    """n records; record i's owner = one label + pointer to record i-1's owner (each name one label longer)."""
    out = bytearray()
    prev = None
    for i in range(n):
        off = 12 + len(out)
        owner = b"\x01" + bytes([0x61 + i % 26]) + (b"\x00" if prev is None else struct.pack(">H", 0xC000 | prev))
        out += owner + struct.pack(">HHLH", 1, 1, 120, 4) + b"\x01\x02\x03\x04"
        prev = off
    return header(0x8400, 0, n, 0, 0) + bytes(out)


def failing_target(nrec: int, kind: str, n: int) -> bytes:
    """nrec PTR records whose rdata is a bare pointer to one shared name that does NOT decode: a run of n one-byte labels
    ending in a reserved length octet ('labels'), or a run of n pointers each to the next, ending the same way ('hops').
    Names that fail are not remembered by the decoder, so every record reads the shared part again."""
    reclen = 3 + 10 + 2
    target = 12 + nrec * reclen
    recs = (b"\x01a\x00" + struct.pack(">HHLH", 12, 1, 120, 2) + struct.pack(">H", 0xC000 | target)) * nrec
    if kind == "labels":
        tail = b"\x01x" * n + b"\x80"
    elif kind == "label-levels":
        # levels of 124 one-byte labels, each level ending in a pointer to the next one, the last in a reserved octet: every
        # hop starts a run that is short enough by itself
        per = 124 * 2 + 2
        tail = b"".join(b"\x01x" * 124 + struct.pack(">H", 0xC000 | (target + (lv + 1) * per)) for lv in range(n - 1))
        tail += b"\x01x" * 124 + b"\x80"
    else:
        tail = b"".join(struct.pack(">H", 0xC000 | (target + 2 * (h + 1))) for h in range(n)) + b"\x80"
    return header(0x8400, 0, nrec, 0, 0) + recs + tail


def low_byte_alias(k: int, first_off: int = 12) -> bytes:
    """Three records: a name at offset `first_off`, another name exactly k x 256 octets further on, and a record whose owner
    is a pointer to the second - its low octet alone is the offset of the first."""
    a = b"\x02aa\x05local\x00"
    pad = k * 256 - (len(a) + 10)  # rdata length of the first (TXT) record so that the second owner starts k*256 later
    first = a + struct.pack(">HHLH", 16, 1, 120, pad) + bytes([pad - 1 if pad <= 256 else 255]) + b"x" * (pad - 1)
    if pad > 256:
        # several character-strings: 255 + 1 length octets each
        body, left = b"", pad
        while left > 0:
            n = min(255, left - 1)
            body += bytes([n]) + b"y" * n
            left -= n + 1
        first = a + struct.pack(">HHLH", 16, 1, 120, pad) + body
    second = b"\x02zz\x07example\x00" + struct.pack(">HHLH", 1, 1, 120, 4) + b"\x0a\x00\x00\x01"
    third = struct.pack(">H", 0xC000 | (first_off + k * 256)) + struct.pack(">HHLH", 1, 1, 120, 4) + b"\x0a\x00\x00\x02"
    return header(0x8400, 0, 3, 0, 0) + first + second + third


def families(tier: str) -> Iterator[bytes]:
    for k in (1, 2, 3, 8, 30):
        yield low_byte_alias(k)
    for nrec, kind, n in ((100, "labels", 100), (300, "labels", 130), (300, "labels", 1000), (344, "labels", 1890),
                          (500, "labels", 700), (560, "labels", 250), (560, "hops", 126), (560, "hops", 130), (400, "hops", 1400),
                          (341, "label-levels", 15), (200, "label-levels", 23), (450, "label-levels", 8), (540, "label-levels", 3)):
        yield failing_target(nrec, kind, n)
    depths = list(range(1, 140)) + [200, 500, 900, 980, 990, 1000, 1010, 1100, 2000, 3000, 4000, 4470]
    if tier != "quick":
        depths = list(range(1, 4471, 3)) + [4470]
    for d in depths:
        yield chain(d, True)
        if d <= 4000:
            yield chain(d, False)
    for n in range(1, 135):
        yield label_stack(n)
    for n in (120, 126, 127, 128, 129, 130):
        yield label_stack(n, b"")[:-5] + b"\x00" + struct.pack(">HH", 12, 1)
    for n in range(245, 262):
        yield long_name(n)
    for nrec, nl in ((600, 1), (500, 100), (550, 126), (300, 127)):
        yield shared_chain(nrec, nl)
    for n in (10, 100, 126, 127, 128, 129, 200, 400):
        yield pointer_ladder(n)
    yield from poisoned()


def poisoned() -> Iterator[bytes]:
    """A record whose rdata name is malformed (too long, or a label that cannot be encoded again) but whose rdlength is
    consistent - the decoder skips that record - followed by records whose owner or rdata name is a bare pointer into
    that rdata: whatever the decoder remembered about the rejected name must not come back through the pointer."""
    def lab(b: bytes) -> bytes:
        return bytes([len(b)]) + b

    bad_names = [b"".join(lab(b"a" * 63) for _ in range(5)) + b"\x00", b"".join(lab(b"b" * 63) for _ in range(4)) + b"\x00",
                 lab(b"\xff" * 40) + lab(b"local") + b"\x00", lab(b"\xc3" * 22) + b"\x00",
                 lab(b"c" * 63) * 3 + lab(b"d" * 61) + b"\x00"]  # the last one: exactly 253 characters - acceptable
    owner = lab(b"o") + lab(b"local") + b"\x00"
    for qd in (0, 1):
        question = (lab(b"_q") + lab(b"local") + b"\x00" + struct.pack(">HH", 12, 1)) if qd else b""
        for bad in bad_names:
            for t1, pre in ((12, b""), (5, b""), (33, struct.pack(">HHH", 0, 0, 80)), (47, b"")):
                post = b"\x00\x01\x40" if t1 == 47 else b""
                rdata1 = pre + bad + post
                start = 12 + len(question)
                rec1 = owner + struct.pack(">HHIH", t1, 1, 120, len(rdata1)) + rdata1
                bad_off = start + len(owner) + 10 + len(pre)
                ptr = struct.pack(">H", 0xC000 | bad_off)
                inner = struct.pack(">H", 0xC000 | (bad_off + 1 + bad[0]))  # a pointer to the second label of the bad name
                for p in (ptr, inner, lab(b"x") + ptr):
                    seconds = [p + struct.pack(">HHIH", 1, 0x8001, 120, 4) + b"\x0a\x00\x00\x01",
                               owner + struct.pack(">HHIH", 12, 1, 4500, len(p)) + p,
                               owner + struct.pack(">HHIH", 33, 0x8001, 120, 6 + len(p)) + struct.pack(">HHH", 0, 0, 80) + p]
                    for rec2 in seconds:
                        yield header(0x8400 if not qd else 0x0000, qd, 2, 0, 0) + question + rec1 + rec2
                        yield header(0x8400, qd, 3, 0, 0) + question + rec1 + rec2 + rec2


# ------------------------------------------------------------------------------------------------
# (d) mutations of valid messages
# ------------------------------------------------------------------------------------------------

SUBST = bytes([0x00, 0x01, 0x02, 0x0B, 0x0C, 0x0D, 0x1F, 0x3F, 0x40, 0x41, 0x7F, 0x80, 0xBF, 0xC0, 0xC1, 0xFF])


def seeds(limit: Optional[int] = None) -> List[bytes]:
    x, h, t = "x._a._tcp.local.", "h.local.", "_a._tcp.local."
    full = [
        ("PTR", t, 1, 4500, x), ("SRV", x, 0x8001, 120, 0, 0, 80, h), ("TXT", x, 0x8001, 4500, b"\x03a=b\x01c"),
        ("A", h, 0x8001, 120, b"\x0a\x00\x00\x01"), ("AAAA", h, 0x8001, 120, codec.IP6),
        ("NSEC", h, 0x8001, 120, h, (1, 28)), ("HINFO", h, 1, 120, b"cpu", b"os"), ("CNAME", "w.local.", 1, 120, h),
    ]
    out = [
        wire.response(full[:4]), wire.response(full), wire.response([full[0]], full[1:4]),
        wire.query([("Q", t, 12, 1)]), wire.query([("Q", t, 12, 0x8001)], authorities=[full[0]]),
        wire.query([("Q", t, 12, 1), ("Q", x, 33, 1), ("Q", h, 255, 0x8001)], answers=[full[0]], id_=0x1234),
        wire.query([("Q", t, 12, 1)], answers=[full[0]], tc=True),
        wire.response([full[5]]), wire.response([full[6], full[7]]), wire.response(full, compress=False),
        wire.response([("PTR", t, 1, 0, x)]), wire.response([("TXT", x, 1, 4500, b"")]),
        wire.response([("RAW", h, 99, 1, 120, b"\x01\x02\x03")] + full[:2]),
        wire.response([("PTR", "_services._dns-sd._udp.local.", 1, 4500, t)]),
        wire.response([("SRV", "ünï._a._tcp.local.", 0x8001, 120, 0, 0, 80, "hö.local.")]),
    ]
    return out[:limit] if limit else out


def mutations(seed: bytes) -> Iterator[bytes]:
    n = len(seed)
    for i in range(n):
        for v in SUBST:
            if seed[i] != v:
                yield seed[:i] + bytes([v]) + seed[i + 1:]
        yield seed[:i]  # truncation
        yield seed[:i] + seed[i + 1:]  # deletion
        for v in (0x00, 0x01, 0x3F, 0xC0, 0xFF):
            yield seed[:i] + bytes([v]) + seed[i:]  # insertion
        for bit in range(8):
            yield seed[:i] + bytes([seed[i] ^ (1 << bit)]) + seed[i + 1:]
    yield seed
    yield seed + b"\x00"
    yield seed + seed[12:]
    # count fields
    for field in range(4):
        off = 4 + 2 * field
        cur = struct.unpack_from(">H", seed, off)[0]
        for val in {0, 1, max(cur - 1, 0), cur + 1, 0xFFFF}:
            yield seed[:off] + struct.pack(">H", val) + seed[off + 2:]


def double_mutations(seed: bytes) -> Iterator[bytes]:
    n = len(seed)
    vals = bytes([0x00, 0x3F, 0x40, 0xC0, 0xFF])
    for i in range(12, n):
        for j in range(i + 1, n):
            for a in vals:
                for b in vals:
                    m = bytearray(seed)
                    m[i] = a
                    m[j] = b
                    yield bytes(m)


# ------------------------------------------------------------------------------------------------
# Oracle
# ------------------------------------------------------------------------------------------------


class _Counter:
    __slots__ = ("n",)

    def __init__(self) -> None:
        self.n = 0

    def __call__(self, frame: Any, event: str, arg: Any) -> None:
        if event == "call" or event == "c_call":
            self.n += 1


def _names_of(e: tuple) -> List[str]:
    out = [e[1]]
    if e[0] in ("PTR", "CNAME", "NSEC"):
        out.append(e[4])
    if e[0] == "SRV":
        out.append(e[7])
    return out


def text_norm(e: tuple) -> tuple:
    """HINFO character-strings compared as text after UTF-8 'replace' (as the library decodes them)."""
    if e[0] == "HINFO":
        return e[:4] + (wire._b(e[4]).decode("utf-8", "replace"), wire._b(e[5]).decode("utf-8", "replace"))
    return norm(e)


def check_datagram(data: bytes, count_calls: bool = True) -> Tuple[Optional[str], str, int]:
    """(problem or None, outcome class, calls)."""
    from zeroconf import DNSIncoming

    counter = _Counter()
    try:
        if count_calls:
            sys.setprofile(counter)
        try:
            msg = DNSIncoming(data)
            answers = msg.answers()
            questions = msg.questions
        finally:
            if count_calls:
                sys.setprofile(None)
        repr(msg)
    except BaseException as e:  # noqa: BLE001 - totality: nothing may escape
        sys.setprofile(None)
        if isinstance(e, (KeyboardInterrupt, SystemExit)) or type(e).__name__ == "WatchdogTimeout":
            raise  # (the watchdog: this datagram makes the decoder spin - reported by the caller as non-terminating)
        return f"{type(e).__name__} escaped the decoder: {str(e)[:200]}", "exception", counter.n
    budget = budget_for(data)
    if count_calls and counter.n > budget:
        return f"{counter.n} calls for a {len(data)}-byte datagram (budget {budget})", "over-budget", counter.n
    if msg.valid:
        try:
            secs = incoming_sections(msg)
        except Exception as e:  # noqa: BLE001
            return f"decoded objects are not usable: {type(e).__name__}: {e}", "exception", counter.n
        for s in secs:
            for e in s:
                for nm in _names_of(e):
                    if len(nm) > 253:
                        return f"valid message with a {len(nm)}-character name", "long-name", counter.n
    problem, oc = faithful(msg, data)
    return problem, oc, counter.n


def faithful(msg: Any, data: bytes) -> Tuple[Optional[str], str]:
    """The last clause of C02 for an already decoded message object: equal to the strict parser's reading of `data`."""
    try:
        ref = wire.strict_decode(data)
    except wire.Reject:
        return None, ("lib-valid" if msg.valid else "lib-invalid") + "/strict-reject"
    if not ref.all_supported():
        return None, "strict-accept/unsupported-type"
    if not msg.valid:
        return "strict RFC 1035 parser accepts the datagram, the library marks it invalid", "mismatch"
    secs = incoming_sections(msg)
    want = [[text_norm(e) for e in s] for s in (ref.questions, ref.answers, ref.authorities, ref.additionals)]
    got = [[text_norm(e) for e in s] for s in secs]
    if got != want:
        return f"strict parser reads {want}, library reads {got}", "mismatch"
    n = sum(len(s) for s in want)
    return None, f"agree:{min(n, 3)}"


def in_flight_set() -> List[bytes]:
    """Valid datagrams that share offsets but not names (a name at offset 12 that later records point to), for the
    'two datagrams in flight' phase."""
    out = list(seeds())
    for typ, inst in (("_printer._tcp.local.", "Office"), ("_scanner._tcp.local.", "Office"), ("_ipp._tcp.local.", "Lab")):
        full = f"{inst}.{typ}"
        out.append(wire.query([("Q", typ, 12, 1)], answers=[("PTR", typ, 1, 4500, full)], tc=True))
        out.append(wire.query([("Q", typ, 12, 1), ("Q", full, 33, 1)], answers=[("PTR", typ, 1, 4500, full)]))
        out.append(wire.response([("PTR", typ, 1, 4500, full), ("SRV", full, 0x8001, 120, 0, 0, 80, f"{inst}.local."),
                                  ("A", f"{inst}.local.", 0x8001, 120, b"\x0a\x00\x00\x07")]))
        out.append(wire.encode(0, 0x8400, [("Q", typ, 12, 1)], [("PTR", typ, 1, 4500, full)]))
    return out
