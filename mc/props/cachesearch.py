"""Shared E2 search for C05 (cache lookup paths vs. the s.10 model) and C06 (ingestion + listener
contract): BFS over histories of response datagrams and clock steps through the record manager of a
live instance (so the periodic 10 s purge timer really runs).
"""
from __future__ import annotations

from typing import Any, Dict, List, Optional, Tuple

from .. import wire
from ..explore import Stats, bfs_histories, digest
from ..models.cache_model import CacheModel, ident
from ..introspect import guarded
from ..world import World

IN, FL = 1, 0x8001
IP1, IP2 = b"\x01\x01\x01\x01", b"\x01\x01\x01\x02"
IP6 = bytes.fromhex("fe800000000000000000000000000001")
TYPE_A = "_a._tcp.local."
X = "x._a._tcp.local."
Y = "y._a._tcp.local."


def A1(ttl, cl=IN): return ("A", "h.local.", cl, ttl, IP1)
def A2(ttl, cl=IN): return ("A", "h.local.", cl, ttl, IP2)
def A1U(ttl, cl=IN): return ("A", "H.LOCAL.", cl, ttl, IP1)
def Q1(ttl, cl=IN): return ("AAAA", "h.local.", cl, ttl, IP6)
def PX(ttl, cl=IN): return ("PTR", TYPE_A, cl, ttl, X)
def PXU(ttl, cl=IN): return ("PTR", "_A._tcp.local.", cl, ttl, "X._a._tcp.local.")
def PY(ttl, cl=IN): return ("PTR", TYPE_A, cl, ttl, Y)
def TX(ttl, cl=IN): return ("TXT", X, cl, ttl, b"\x01a")
def TX2(ttl, cl=IN): return ("TXT", X, cl, ttl, b"\x01b")
def SX(ttl, cl=IN): return ("SRV", X, cl, ttl, 0, 0, 80, "h.local.")
def SXU(ttl, cl=IN): return ("SRV", X, cl, ttl, 0, 0, 80, "H.local.")
def SX2(ttl, cl=IN): return ("SRV", X, cl, ttl, 0, 0, 80, "h2.local.")
def HI(ttl, cl=IN): return ("HINFO", "h.local.", cl, ttl, b"cpu", b"os")
def NS(ttl, cl=IN): return ("NSEC", "h.local.", cl, ttl, "h.local.", (1,))
def CN(ttl, cl=IN): return ("CNAME", "h.local.", cl, ttl, "h2.local.")


def alphabet(tier: str, variant: str = "main") -> Tuple[List[List[tuple]], List[int]]:
    """(datagrams, clock steps in ms).  Simplest first."""
    d: List[List[tuple]] = []
    if tier == "quick":
        for mk in (A1, A2):
            for ttl in (120, 1, 0):
                d.append([mk(ttl)])
            d.append([mk(120, FL)])
            d.append([mk(0, FL)])
        d.append([A1U(120)])
        d.append([A1U(2, FL)])
        for ttl in (4500, 1, 0):
            d.append([PX(ttl)])
        d.append([PXU(4500)])
        d.append([PX(4500, FL)])  # the same pointer seen with the other value of the cache-flush bit
        for mk in (SX, TX):
            d += [[mk(120)], [mk(0)], [mk(120, FL)]]
        d.append([SX2(120, FL)])
        d.append([TX2(120, FL)])
        # repetitions inside one datagram and goodbye + other record
        d += [[A1(10), A1(10)], [A1(10), A1(100)], [PX(1), PX(4500)], [SX(10), SX(100)],
              [A1(120, FL), A2(0)], [A1(0), PX(4500)], [A1(120), A2(120)]]
        steps = [1, 999, 1000, 1001, 2000, 10000, 120000]
    else:
        ttls = (120, 1, 2, 0)
        for mk in (A1, A2, Q1, SX, SX2, TX, TX2, HI, NS, CN):
            for ttl in ttls:
                d.append([mk(ttl)])
            d.append([mk(120, FL)])
            d.append([mk(0, FL)])
            d.append([mk(1, FL)])
        d += [[A1U(120)], [A1U(2, FL)], [A1U(0)], [SXU(120)], [SXU(0)]]
        for mk in (PX, PY):
            for ttl in (4500, 1125, 1124, 1, 0):
                d.append([mk(ttl)])
        d += [[PXU(4500)], [PXU(0)], [PX(4500, FL)]]
        d += [[A1(10), A1(10)], [A1(10), A1(100)], [A1(100), A1(10)], [PX(1), PX(4500)], [PX(4500), PXU(1200)],
              [SX(10), SX(100)], [TX(10), TX(10)], [NS(10), NS(100)], [HI(10), HI(100)],
              [A1(120, FL), A2(0)], [A1(0), PX(4500)], [A1(120), A2(120)], [A1(120, FL), A2(120, FL)],
              [SX(120, FL), TX(120, FL), A1(120, FL)], [PX(0), PY(4500)], [A1(120), A1U(60)]]
        steps = [1, 999, 1000, 1001, 1999, 2000, 2001, 9999, 10000, 10001, 119999, 120000, 120001,
                 1124999, 1125000, 4500000]
    if variant == "c06":
        # several record sets with the cache-flush bit in one datagram, most of them for names the cache has never heard of
        # (a host announces a changed address together with the records of new instances): every set is flushed on its own
        def TN(k: int) -> tuple:
            return ("TXT", f"n{k}._a._tcp.local.", FL, 120, b"\x01n")
        d.append([A2(120, FL), TN(1), TN(2), TN(3), TN(4)])
        d.append([TN(5), TN(6), TX2(120, FL), TN(7), TN(8)])
    return d, steps


PROBE_NAMES = ["h.local.", "H.LOCAL.", "h2.local.", X, "X._A._tcp.local.", Y, TYPE_A, "_A._TCP.local.", "nope.local."]
PROBE_KINDS = {"A": 1, "AAAA": 28, "PTR": 12, "CNAME": 5, "TXT": 16, "SRV": 33, "HINFO": 13, "NSEC": 47}
PROBE_RECORDS = [A1(7), A2(7), A1U(7), Q1(7), PX(7), PXU(7), PY(7), TX(7), TX2(7), SX(7), SXU(7), SX2(7), HI(7),
                 NS(7), CN(7)]


def lib_full(r: Any, now: float) -> tuple:
    """Everything observable of a cached record object, times relative to now."""
    return lib_ident(r, spelled=True) + (r.unique, round(r.created - now, 3), r.ttl)


def lib_ident(r: Any, spelled: bool = False) -> tuple:
    f = (lambda s: s) if spelled else (lambda s: s.lower())
    n = type(r).__name__
    if n == "DNSAddress":
        return ("A" if r.type == 1 else "AAAA", f(r.name), r.class_, bytes(r.address))
    if n == "DNSPointer":
        return ("PTR" if r.type == 12 else "CNAME", f(r.name), r.class_, f(r.alias))
    if n == "DNSText":
        return ("TXT", f(r.name), r.class_, bytes(r.text))
    if n == "DNSService":
        return ("SRV", f(r.name), r.class_, r.priority, r.weight, r.port, f(r.server))
    if n == "DNSHinfo":
        return ("HINFO", f(r.name), r.class_, r.cpu.encode(), r.os.encode())
    if n == "DNSNsec":
        return ("NSEC", f(r.name), r.class_, r.next_name, tuple(sorted(r.rdtypes)))
    raise TypeError(n)


def to_lib(e: tuple, created: float = 1.0) -> Any:
    from zeroconf import DNSAddress, DNSHinfo, DNSNsec, DNSPointer, DNSService, DNSText

    k = e[0]
    if k in ("A", "AAAA"):
        return DNSAddress(e[1], wire.TYPE_OF[k], e[2], e[3], e[4], created=created)
    if k in ("PTR", "CNAME"):
        return DNSPointer(e[1], wire.TYPE_OF[k], e[2], e[3], e[4], created)
    if k == "TXT":
        return DNSText(e[1], 16, e[2], e[3], e[4], created)
    if k == "SRV":
        return DNSService(e[1], 33, e[2], e[3], e[4], e[5], e[6], e[7], created)
    if k == "HINFO":
        return DNSHinfo(e[1], 13, e[2], e[3], e[4].decode(), e[5].decode(), created)
    if k == "NSEC":
        return DNSNsec(e[1], 47, e[2], e[3], e[4], list(e[5]), created)
    raise ValueError(k)


def trip(r: Any) -> tuple:
    return (lib_ident(r), r.created, r.ttl)


def srt(xs: Any) -> list:
    return sorted(xs, key=repr)


class Recorder:
    """Passive RecordUpdateListener (created lazily to subclass the library's base class)."""


def make_listener_classes() -> Dict[str, Any]:
    from zeroconf import RecordUpdateListener

    class Rec(RecordUpdateListener):
        def __init__(self, zc: Any, name: str) -> None:
            self.zc = zc
            self.name = name
            self.calls: List[tuple] = []
            self.act: Optional[str] = None  # None | 'remove_self' | 'add_other'
            self.armed = False
            self.other: Any = None

        def snapshot(self) -> list:
            c = self.zc.cache
            return srt(trip(r) for n in c.names() for r in c.entries_with_name(n))

        def async_update_records(self, zc: Any, now: float, records: list) -> None:
            self.calls.append(("u", now, [(lib_ident(u.new), u.new.ttl, u.old) for u in records], self.snapshot()))
            if self.armed and self.act:
                self.armed = False
                if self.act == "remove_self":
                    zc.async_remove_listener(self)
                elif self.act == "add_other":
                    self.other = Rec(zc, self.name + "+")
                    zc.async_add_listener(self.other, None)
                elif self.act == "add_other_asking":
                    # ... with questions, so that what the cache holds is replayed to the newcomer (and to nobody else)
                    from zeroconf import DNSQuestion
                    self.other = Rec(zc, self.name + "+")
                    zc.async_add_listener(self.other, [DNSQuestion("h.local.", 255, 1), DNSQuestion(TYPE_A, 12, 1),
                                                       DNSQuestion(X, 255, 1)])

        def async_update_records_complete(self) -> None:
            self.calls.append(("c", self.snapshot()))

    return {"Rec": Rec}


_CLS: Dict[str, Any] = {}
_WIRE_CACHE: Dict[int, bytes] = {}


class Search:
    def __init__(self, prop: str, tier: str, config: str = "passive") -> None:
        self.prop = prop
        self.tier = tier
        self.config = config  # passive | remove:RX | remove:XR | add:RX | add:XR
        self.dgrams, self.steps = alphabet(tier, "c06" if prop == "C06" else "main")
        self.events: List[tuple] = [("d", i) for i in range(len(self.dgrams))] + [("t", s) for s in self.steps]

    def describe(self, hist: Any) -> list:
        return [self.dgrams[a] if k == "d" else f"+{a}ms" for k, a in hist]

    def enabled(self, hist: tuple, ev: tuple) -> bool:
        # two clock steps in a row add nothing a single one does not reach within the depth bound... they do
        # (sums differ), so only forbid a trailing step after a trailing step when the history is otherwise empty
        return True

    # ------------------------------------------------------------------------------------------
    def step(self, hist: tuple, verbose: bool = False) -> Tuple[Optional[Dict[str, Any]], Any, int]:
        from zeroconf import DNSIncoming

        if not _CLS:
            _CLS.update(make_listener_classes())
        Rec = _CLS["Rec"]
        problems: List[str] = []
        with World() as w:
            host = w.new_zeroconf()
            zc = host.zc
            cache = zc.cache
            rec = Rec(zc, "R")
            actor = None
            if self.config == "passive":
                zc.async_add_listener(rec, None)
            elif self.config in ("twice", "twice-removed"):
                # the same listener object registered twice (registration is idempotent), then possibly removed once
                zc.async_add_listener(rec, None)
                zc.async_add_listener(rec, None)
                if self.config == "twice-removed":
                    zc.async_remove_listener(rec)
            else:
                act, order = self.config.split(":")
                actor = Rec(zc, "X")
                actor.act = {"remove": "remove_self", "add": "add_other", "addq": "add_other_asking"}[act]
                for l in (rec, actor) if order == "RX" else (actor, rec):
                    zc.async_add_listener(l, None)
            model = CacheModel()
            t0 = w.now_ms
            next_purge = t0 + 10000
            last_i = len(hist) - 1
            for idx, (kind, arg) in enumerate(hist):
                last = idx == last_i
                if kind == "d":
                    entries = self.dgrams[arg]
                    data = _WIRE_CACHE.get(arg)
                    if data is None:
                        data = _WIRE_CACHE[arg] = wire.response(entries)
                    now = w.now_ms
                    before_objs = {}
                    if last:
                        for n in cache.names():
                            for r in cache.async_entries_with_name(n).values():
                                before_objs[lib_ident(r)] = r
                        rec.calls.clear()
                        if actor is not None:
                            actor.calls.clear()
                            actor.armed = True
                    zc.record_manager.async_updates_from_response(DNSIncoming(data, now=now))
                    exp = model.datagram(entries, now)
                    if last:
                        if actor is not None:
                            actor.armed = False
                        if self.config == "twice-removed":
                            if rec.calls:
                                problems.append(f"a listener that was removed is still called: {rec.calls[:2]}")
                        else:
                            self.check_datagram(problems, rec, actor, exp, model, before_objs, zc)
                else:
                    target = w.now_ms + arg
                    while next_purge <= target:
                        if last:
                            rec.calls.clear()
                        w.advance_to_ms(next_purge)
                        gone = model.purge(next_purge)
                        if last:
                            self.check_purge(problems, rec, gone, next_purge)
                        next_purge += 10000
                    w.advance_to_ms(target)
                if last and not (kind == "d" and exp["contradictory"]):
                    self.check_lookups(problems, cache, model, w.now_ms)
            now = w.now_ms
            canon = guarded(lambda: (
                [(k, [(lib_full(a, now), lib_full(b, now)) for a, b in st.items()]) for k, st in sorted(cache.cache.items())],
                [(k, [(lib_full(a, now), lib_full(b, now)) for a, b in st.items()])
                 for k, st in sorted(cache.service_cache.items())],
                (now - t0) % 10000,
            ), lambda: ("history", tuple(hist)))
            excs = w.exceptions()
            if excs:
                problems.append(f"exception in the event loop: {excs[0]}")
        verdict = None
        if problems:
            verdict = {"what": f"{self.prop} {self.describe(hist)}: {problems[0]}",
                       "replay": {"tier": self.tier, "config": self.config, "problems": problems[:6]},
                       "signature": {"check": problems[0].split(":")[0]}}
            if verbose:
                for p in problems:
                    print("   ", p)
        return verdict, canon, len(hist)

    # ------------------------------------------------------------------------------------------
    def check_lookups(self, problems: List[str], cache: Any, model: CacheModel, now: float) -> None:
        from zeroconf import DNSEntry

        if self.prop != "C05":
            # C06 only needs "cache after == model after"
            got = srt(trip(r) for n in cache.names() for r in cache.async_entries_with_name(n).values())
            if got != model.snapshot():
                problems.append(f"cache-after: cache {got} != model {model.snapshot()}")
            return
        names = cache.names()
        if sorted(names) != model.names():
            problems.append(f"names: {sorted(names)} != model {model.names()}")
        for n in PROBE_NAMES:
            exp = model.by_name(n)
            got = srt(trip(r) for r in cache.entries_with_name(n))
            if got != exp:
                problems.append(f"entries_with_name({n!r}): {got} != model {exp}")
            d = cache.async_entries_with_name(n)
            gk, gv = srt(trip(r) for r in d), srt(trip(r) for r in d.values())
            if gk != exp or gv != exp:
                problems.append(f"async_entries_with_name({n!r}): keys {gk} values {gv} != model {exp}")
            es = srt(trip(r) for r in cache.entries_with_server(n))
            exs = model.by_server(n)
            ds = cache.async_entries_with_server(n)
            if es != exs or srt(trip(r) for r in ds.values()) != exs or srt(trip(r) for r in ds) != exs:
                problems.append(f"entries_with_server({n!r}): {es} / {srt(trip(r) for r in ds.values())} != model {exs}")
            for kind, t in PROBE_KINDS.items():
                exd = model.by_details(n, kind, 1)
                g1 = srt(trip(r) for r in cache.get_all_by_details(n, t, 1))
                g2 = srt(trip(r) for r in cache.async_all_by_details(n, t, 1))
                if g1 != exd or g2 != exd:
                    problems.append(f"all_by_details({n!r},{kind}): {g1} / {g2} != model {exd}")
                one = cache.get_by_details(n, t, 1)
                if (one is None) != (not exd) or (one is not None and trip(one) not in exd):
                    problems.append(f"get_by_details({n!r},{kind}): {one and trip(one)} not in model {exd}")
                ent = cache.get(DNSEntry(n, t, 1))
                if (ent is None) != (not exd) or (ent is not None and trip(ent) not in exd):
                    problems.append(f"get(DNSEntry({n!r},{kind})): {ent and trip(ent)} not in model {exd}")
        for e in PROBE_RECORDS:
            probe = to_lib(e)
            exp1 = model.get(ident(e))
            for label, got in (("get", cache.get(probe)), ("async_get_unique", cache.async_get_unique(probe))):
                if (got is None) != (exp1 is None) or (got is not None and trip(got) != exp1):
                    problems.append(f"{label}({e}): {got and trip(got)} != model {exp1}")
        for name in (TYPE_A, "_A._TCP.local."):
            for alias in (X, "X._a._tcp.local.", Y):
                got = cache.current_entry_with_name_and_alias(name, alias)
                ent = model.recs.get(("PTR", TYPE_A, 1, alias.lower()))
                # names compare case-insensitively on every path (the cached record keeps its first spelling)
                want = ent is not None and not ent.expired(now)
                if (got is not None) != want or (got is not None and trip(got) != (ident(ent.first), ent.created, ent.ttl)):
                    problems.append(f"current_entry_with_name_and_alias({name!r},{alias!r}): {got and trip(got)} "
                                    f"but model says present={want}")

    def check_purge(self, problems: List[str], rec: Any, gone: List[tuple], when: float) -> None:
        ups = [c for c in rec.calls if c[0] == "u"]
        reported: List[tuple] = []
        for c in ups:
            for (i, ttl, old) in c[2]:
                reported.append(i)
        if self.prop == "C05":
            if srt(reported) != srt(gone):
                problems.append(f"purge at {when}: reported {srt(reported)} != fully elapsed records {srt(gone)}")

    def check_datagram(self, problems: List[str], rec: Any, actor: Any, exp: Dict[str, Any], model: CacheModel,
                       before_objs: Dict[tuple, Any], zc: Any) -> None:
        if self.prop != "C06":
            return
        after = model.snapshot()
        pairs = exp["pairs"]

        def whole(lis: Any, who: str) -> None:
            ups = [c for c in lis.calls if c[0] == "u"]
            comps = [c for c in lis.calls if c[0] == "c"]
            if not pairs:
                if len(ups) > 1 or len(comps) > 1 or any(c[2] for c in ups):
                    problems.append(f"listener-calls: {who} got {len(ups)} update / {len(comps)} complete calls for a "
                                    f"datagram without updates")
                return
            if len(ups) != 1 or len(comps) != 1:
                problems.append(f"listener-calls: {who} got {len(ups)} update and {len(comps)} complete calls, "
                                f"expected exactly one each")
                return
            if [c[0] for c in lis.calls] != ["u", "c"]:
                problems.append(f"listener-order: {who} calls {[c[0] for c in lis.calls]}")
            got_pairs = [(i, old is not None) for (i, ttl, old) in ups[0][2]]
            want_pairs = [(i, had) for (i, ttl, had) in pairs]
            if got_pairs != want_pairs:
                problems.append(f"listener-pairs: {who} got {got_pairs}, expected {want_pairs}")
            else:
                for (i, ttl, old) in ups[0][2]:
                    if old is not None and old is not before_objs.get(i):
                        problems.append(f"listener-previous: previous of {i} is not the cached object")
            if ups[0][3] != exp["snapshot_at_notify"]:
                problems.append(f"listener-snapshot: cache at notification {ups[0][3]} != expected (refreshes and flush "
                                f"marks visible, no adds/removes) {exp['snapshot_at_notify']}")
            if not exp["contradictory"] and comps[0][1] != after:
                problems.append(f"listener-complete: cache at completion {comps[0][1]} != model {after}")

        whole(rec, "passive listener")
        if actor is not None:
            for lis, who in ((actor, "acting listener"), (actor.other, "listener added mid-datagram")):
                if lis is None:
                    continue
                ups = [c for c in lis.calls if c[0] == "u"]
                comps = [c for c in lis.calls if c[0] == "c"]
                # (a newcomer that asks is first told what the cache holds - one call of each kind that belongs to its
                # registration, not to the datagram)
                extra = 1 if (lis is actor.other and actor.act == "add_other_asking") else 0
                if len(ups) > 1 + extra or len(comps) > 1 + extra:
                    problems.append(f"listener-calls: {who} called {len(ups)}/{len(comps)} times (at most once each)")
            if actor.act == "add_other_asking" and pairs:
                whole(actor, "acting listener (adds another that asks)")
            if actor.act == "add_other" and pairs:
                # the actor itself stayed registered for the whole datagram
                whole(actor, "acting listener (adds another)")
                # ... and the listener it registered during the first round is a registered listener when the cache has been
                # brought up to date: it is owed the second call (the first one it may or may not have received)
                if actor.other is not None:
                    comps = [c for c in actor.other.calls if c[0] == "c"]
                    if len(comps) != 1:
                        problems.append(f"listener-calls: a listener registered during the first round got {len(comps)} "
                                        f"completion calls for that datagram, expected exactly one")
                    elif not exp["contradictory"] and comps[0][1] != after:
                        problems.append(f"listener-complete: cache at completion {comps[0][1]} != model {after} (listener "
                                        f"registered during the first round)")


def run_search(prop: str, tier: str, depth: int, stats: Stats, configs: List[str], dedup: bool = True,
               level_logs: Optional[Dict[str, list]] = None, max_states: Optional[int] = None) -> Dict[str, Any]:
    out = {}
    for cfg in configs:
        s = Search(prop, tier, cfg)
        log: List[Dict[str, int]] = []
        out[cfg] = bfs_histories(s.step, s.events, depth, stats, f"{prop}/{tier}/{cfg}", dedup=dedup, level_log=log,
                                 max_states=max_states)
        if level_logs is not None:
            level_logs[cfg] = log
    return out


def replay(prop: str, data: Dict[str, Any]) -> int:
    s = Search(prop, data["tier"], data.get("config", "passive"))
    hist = tuple(tuple(e) for e in data["history"])
    print("history:", s.describe(hist))
    v1, c1, _ = s.step(hist, verbose=True)
    v2, c2, _ = s.step(hist)
    if digest(c1) != digest(c2):
        print("HARNESS-ERROR: replay is not deterministic")
        return 2
    if v1 is None:
        print("no violation on this tree")
        return 0
    print("VIOLATION reproduced:", v1["what"])
    return 1
