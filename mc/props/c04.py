"""C04 - browser callbacks alternate add/remove and always match the cache (E2 BFS)."""
from __future__ import annotations

import struct
from typing import Any, Dict, List, Optional, Tuple

from .. import wire
from ..explore import Stats, bfs_histories, digest
from ..introspect import guarded
from ..world import HarnessError, World
from .cachesearch import lib_full

ID = "C04"
TECHNIQUE = ("explicit-state BFS over histories of response datagrams (through AsyncListener.datagram_received), clock "
             "steps (incl. the real 10 s purge) and browser start/cancel on a live instance with AsyncServiceBrowser; "
             "alternation automaton per (type, instance) and live-set == cached pointer set at every quiescent point")

IN, FL = 1, 0x8001
TA, TB = "_a._tcp.local.", "_b._tcp.local."
X, Y, XU = "x._a._tcp.local.", "y._a._tcp.local.", "X._A._tcp.local."
Z = "z._b._tcp.local."
IP = b"\x0a\x00\x00\x09"


def PTR(t, inst, ttl, cl=IN): return ("PTR", t, cl, ttl, inst)


def alphabet(tier: str, variant: str = "full") -> Tuple[List[List[tuple]], List[int], List[tuple]]:
    d: List[List[tuple]] = []
    for ttl in (4500, 1125, 1, 0):
        d.append([PTR(TA, X, ttl)])
    d += [[PTR(TA, Y, 4500)], [PTR(TA, Y, 0)], [PTR(TA, XU, 4500)], [PTR(TA, XU, 0)],
          [PTR(TA, X, 4500, FL)], [PTR(TA, X, 4500), PTR(TA, Y, 4500)], [PTR(TA, X, 0), PTR(TA, Y, 4500)],
          [PTR(TA, X, 4500), PTR(TA, X, 4500)], [PTR(TA, X, 1), PTR(TA, X, 4500)], [PTR(TA, X, 0), PTR(TA, X, 0)],
          [PTR(TA, X, 4500), ("SRV", X, FL, 120, 0, 0, 80, "h.local."), ("TXT", X, FL, 4500, b"\x01a"),
           ("A", "h.local.", FL, 120, IP)],
          [("SRV", X, FL, 120, 0, 0, 80, "h.local.")], [("A", "h.local.", FL, 120, IP)], [("TXT", X, FL, 4500, b"\x01b")],
          [PTR(TB, Z, 4500)], [PTR(TB, Z, 0)],
          # a changed record of an instance travelling *before* that instance's goodbye in the same datagram
          [("TXT", X, FL, 4500, b"\x01c"), PTR(TA, X, 0)], [("SRV", X, FL, 120, 0, 0, 81, "h.local."), PTR(TA, X, 0)],
          [("TXT", X, FL, 4500, b"\x01d"), PTR(TA, X, 4500)],
          # the same pointer withdrawn and asserted inside one datagram, in both orders (whatever the cache ends up
          # holding, the callbacks must say the same)
          [PTR(TA, X, 0), PTR(TA, X, 4500)], [PTR(TA, X, 4500), PTR(TA, X, 0)],
          # a CNAME record whose owner is the browsed type (the decoder represents it with the class it uses for pointers, but
          # it is no pointer record: nothing is Added or Removed for it)
          [("CNAME", TA, IN, 4500, X)], [("CNAME", TA, IN, 0, X)],
          # the pointer of an instance in a class other than IN (class 3, CHAOS): still one (type, instance) for the callbacks
          [PTR(TA, X, 4500, 3)], [PTR(TA, X, 0, 3)]]
    if tier != "quick":
        d += [[PTR(TA, Y, 1125)], [PTR(TA, Y, 4500, FL)], [PTR(TA, X, 2)], [PTR(TA, X, 0), PTR(TB, Z, 4500)],
              [PTR(TA, Y, 0), PTR(TA, X, 0)], [("SRV", X, FL, 0, 0, 0, 80, "h.local.")], [("A", "h.local.", FL, 0, IP)],
              [PTR("_c._tcp.local.", "q._c._tcp.local.", 4500)]]
    steps = [1, 999, 1000, 1001, 10000, 1124999, 1125001, 4500000]
    if tier != "quick":
        steps += [9999, 10001, 1125000, 3375000, 4499999, 10800000]
    if variant == "short-steps":
        steps = [1, 1000, 1001, 10000, 1125001]
    if variant == "core":
        # the deepest quick search uses one representative per kind of datagram
        keep = {repr(x) for x in ([PTR(TA, X, 4500)], [PTR(TA, X, 1)], [PTR(TA, X, 0)], [PTR(TA, Y, 4500)], [PTR(TA, Y, 0)],
                                  [PTR(TA, XU, 4500)], [PTR(TA, X, 4500, FL)], [PTR(TA, X, 0), PTR(TA, Y, 4500)],
                                  [PTR(TA, X, 1), PTR(TA, X, 4500)], d[15], [PTR(TB, Z, 4500)],
                                  [("TXT", X, FL, 4500, b"\x01c"), PTR(TA, X, 0)], [PTR(TA, X, 0), PTR(TA, X, 4500)],
                                  [PTR(TA, X, 4500), PTR(TA, X, 0)], [("CNAME", TA, IN, 4500, X)], [("CNAME", TA, IN, 0, X)],
                                  [PTR(TA, X, 4500, 3)])}
        d = [x for x in d if repr(x) in keep]
        steps = [1, 1000, 1001, 10000, 1125001, 4500000]
    # ("b": a browser for the other type only - started while a pointer of the first type has run out but is not purged yet,
    # it stays inside the quantifier and still makes the instance look at its cache)
    ops = [("start", "a"), ("cancel", "a"), ("start", "ab"), ("start", "b")]
    if tier != "quick":
        ops += [("cancel", "ab")]
    return d, steps, ops


class Log:
    """A recording ServiceListener; inside add_service it looks at the cache like an application would."""

    def __init__(self, w: World, zc: Any, search: "Search") -> None:
        self.w, self.zc, self.search = w, zc, search
        self.events: List[Tuple[str, str, str]] = []
        self.problems: List[str] = []

    def add_service(self, zc: Any, type_: str, name: str) -> None:
        self.events.append(("add", type_, name))
        if self.search.spawn and "spawned" not in self.search.browsers and len(self.events) >= self.search.spawn:
            # an application that reacts to a discovery by browsing for something else (the usual "browse every type" tool):
            # a browser for the other type is created from inside this callback
            from zeroconf.asyncio import AsyncServiceBrowser
            child = Log(self.w, zc, self.search)
            self.search.browsers["spawned"] = (None, child)  # (marked first: the new browser may call back at once)
            self.search.browsers["spawned"] = (AsyncServiceBrowser(zc, [self.search.ren.get(TB, TB)], listener=child), child)
        have = [r.alias.lower() for r in zc.cache.entries_with_name(type_) if r.type == 12]
        if name.lower() not in have:
            self.problems.append(f"add_service({name}) while no pointer record for it is cached under {type_}")
        cur = self.search.current
        if cur is not None:
            for e in cur:
                if e[3] == 0:
                    continue
                from ..libconv import to_lib
                if zc.cache.async_get_unique(to_lib(e)) is None:
                    self.problems.append(f"add_service({name}) before record {e} of the triggering datagram is cached")

    def remove_service(self, zc: Any, type_: str, name: str) -> None:
        self.events.append(("rm", type_, name))

    def update_service(self, zc: Any, type_: str, name: str) -> None:
        self.events.append(("upd", type_, name))


class Search:
    def __init__(self, tier: str, variant: str = "full", prefix: tuple = ()) -> None:
        self.tier = tier
        self.variant = variant
        self.prefix = tuple(tuple(e) for e in prefix)  # events that happen before every explored history
        # '<variant>-cased': the browsed types are spelled with capitals, by the application and in every pointer record alike
        # (the owner name still is exactly a browsed type; the cache files it under its lower-cased spelling)
        self.spawn = 0  # the running browser's listener starts another browser from inside its n-th callback (0: never)
        if variant[:-1].endswith("-spawn"):
            self.spawn = int(variant[-1])
            variant = variant[:-7]
        self.browsers: Dict[str, Tuple[Any, Log]] = {}
        self.ren = {TA: "_A-Type._TCP.local.", TB: "_B._Tcp.local."} if variant.endswith("-cased") else {}
        self.dgrams, self.steps, self.ops = alphabet(tier, variant[:-6] if self.ren else variant)
        if self.spawn:
            self.ops = [op for op in self.ops if op[1] == "a"]  # (the spawned browser is the one for the other type)
        if self.ren:
            self.dgrams = [[(e[0], self.ren.get(e[1], e[1])) + tuple(e[2:]) if e[0] == "PTR" else e for e in dg] for dg in self.dgrams]
        self.events = [("d", i) for i in range(len(self.dgrams))] + [("t", s) for s in self.steps] + list(self.ops)
        self.current: Optional[List[tuple]] = None

    def describe(self, hist: Any) -> list:
        return [self.dgrams[e[1]] if e[0] == "d" else (f"+{e[1]}ms" if e[0] == "t" else f"{e[0]}:{e[1]}") for e in hist]

    def enabled(self, hist: tuple, ev: tuple) -> bool:
        active = set()
        for e in self.prefix + tuple(hist):
            if e[0] == "start":
                active.add(e[1])
            elif e[0] == "cancel":
                active.discard(e[1])
        if ev[0] == "start":
            return ev[1] not in active
        if ev[0] == "cancel":
            return ev[1] in active
        return True

    def step(self, hist: tuple, verbose: bool = False) -> Tuple[Optional[Dict[str, Any]], Any, int]:
        from zeroconf.asyncio import AsyncServiceBrowser

        problems: List[str] = []
        shown = hist
        hist = self.prefix + tuple(hist)
        with World() as w:
            host = w.new_zeroconf()
            zc = host.zc
            proto = host.protocol_for()
            browsers: Dict[str, Tuple[Any, Log]] = {}
            self.browsers = browsers
            finished: List[Log] = []
            skipped = False
            for idx, ev in enumerate(hist):
                if ev[0] == "d":
                    entries = self.dgrams[ev[1]]
                    data = bytearray(wire.response(entries))
                    struct.pack_into(">H", data, 0, idx + 1)  # distinct bytes per occurrence (C16 owns the dup guard)
                    self.current = entries
                    try:
                        proto.datagram_received(bytes(data), ("10.0.0.77", 5353))
                    except Exception as e:  # noqa: BLE001
                        problems.append(f"exception escaped datagram_received: {type(e).__name__}: {e}")
                    self.current = None
                    w.settle()
                elif ev[0] == "t":
                    w.advance(ev[1])
                elif ev[0] == "start":
                    types = [self.ren.get(t, t) for t in ({"a": [TA], "b": [TB], "ab": [TA, TB]}[ev[1]])]
                    now = w.now_ms
                    if any(r.type == 12 and r.is_expired(now) for t in types for r in zc.cache.entries_with_name(t)):
                        skipped = True  # quantifier: browsers are not created over expired-but-unpurged pointers
                        break
                    log = Log(w, zc, self)
                    browsers[ev[1]] = (AsyncServiceBrowser(zc, types, listener=log), log)
                    w.settle()
                else:
                    b, log = browsers.pop(ev[1])
                    w.run_coro(b.async_cancel())
                    finished.append(log)
                    w.settle()
            now = w.now_ms
            lives = {}
            for key, (b, log) in sorted(browsers.items()):
                live = self.check_log(problems, log, key)
                lives[key] = live
                for t in sorted(b.types):
                    cached = sorted({r.alias.lower() for r in zc.cache.entries_with_name(t) if r.type == 12})
                    mine = sorted(n for (tt, n) in live if tt == t.lower())
                    if cached != mine:
                        problems.append(f"browser[{key}] type {t}: reported live {mine} but cache holds pointers {cached}")
                problems.extend(log.problems)
            for log in finished:
                self.check_log(problems, log, "cancelled")
                problems.extend(log.problems)

            def precise() -> Any:
                # reads private fields of the scheduler and the question history; if their layout is not the one known
                # here the history is not de-duplicated at all (mc/introspect.py)
                states = []
                for key, (b, log) in sorted(browsers.items()):
                    qs = b.query_scheduler
                    heap = sorted((q.alias.lower(), round(q.when_millis - now, 3), round(q.expire_time_millis - now, 3),
                                   q.cancelled) for q in qs._query_heap)
                    nxt = None if qs._next_run is None else round(qs._next_run.when() * 1000 - now, 3)
                    # (the schedule's key is whatever the library uses - a name, or a (type, instance) pair since 02c9dfc)
                    states.append((key, sorted(lives[key]), heap, sorted((repr(a).lower(), round(q.when_millis - now, 3))
                                                                         for a, q in qs._next_scheduled_for_alias.items()),
                                   qs._startup_queries_sent, nxt, sorted(b._pending_handlers.items(), key=repr)))
                qh = sorted((q.name.lower(), q.type, round(t - now, 3), sorted(repr(lib_full(r, now)) for r in ka))
                            for q, (t, ka) in zc.question_history._history.items())
                return ([(k, [lib_full(v, now) for v in st.values()]) for k, st in sorted(zc.cache.cache.items())],
                        round((now - 1_000_000) % 10000, 3), states, qh, skipped)

            canon = guarded(precise, lambda: ("history", tuple(hist)))
            excs = w.exceptions()
            if excs:
                problems.append(f"exception in the event loop: {excs[0]}")
        verdict = None
        if problems and not skipped:
            verdict = {"what": f"C04 {self.describe(hist)}: {problems[0]}", "replay": {"tier": self.tier, "variant": self.variant,
                       "prefix": [list(e) for e in self.prefix], "problems": problems[:5]}, "signature": {"check": problems[0].split(":")[0][:30]}}
            if verbose:
                for p in problems:
                    print("   ", p)
        return verdict, canon, len(shown)

    @staticmethod
    def check_log(problems: List[str], log: Log, key: str) -> set:
        live: set = set()
        for kind, t, n in log.events:
            k = (t.lower(), n.lower())
            if kind == "add":
                if k in live:
                    problems.append(f"browser[{key}]: Added twice without Removed for {k}: {log.events}")
                live.add(k)
            elif kind == "rm":
                if k not in live:
                    problems.append(f"browser[{key}]: Removed without Added for {k}: {log.events}")
                live.discard(k)
        return live


def run(tier: str, seed: int) -> Tuple[Stats, str, List[str], Dict[str, Any]]:
    stats = Stats()
    s = Search(tier)
    depth = 4 if tier == "quick" else 5
    log: List[Dict[str, int]] = []
    log2: List[Dict[str, int]] = []
    # abstraction self-check at depth 2
    s1, s2 = Stats(), Stats()
    a = bfs_histories(s.step, s.events, 2, s1, "self-check", enabled=s.enabled)
    b = bfs_histories(s.step, s.events, 2, s2, "self-check", dedup=False, enabled=s.enabled)
    if set().union(*a.values()) != set().union(*b.values()):
        raise HarnessError("canonical form too coarse: de-duplicated search misses states")
    # (i) no browser at the start (browsers start over whatever the cache holds by then), one level less deep in the
    # quick tier; (ii) a browser is already running when the history begins, full depth
    bfs_histories(s.step, s.events, depth - 1 if tier == "quick" else depth, stats, f"C04/{tier}", enabled=s.enabled,
                  level_log=log, max_states=None if tier == "quick" else 250000)
    s_b = Search(tier, "core" if tier == "quick" else "full", prefix=(("start", "a"),))
    log_b: List[Dict[str, int]] = []
    bfs_histories(s_b.step, s_b.events, depth, stats, f"C04/{tier}/browsing", enabled=s_b.enabled, level_log=log_b,
                  max_states=None if tier == "quick" else 250000)
    stats.notes["levels_browsing"] = log_b
    for nth in (1, 2):
        s_s = Search(tier, f"core-spawn{nth}", prefix=(("start", "a"),))
        log_s: List[Dict[str, int]] = []
        bfs_histories(s_s.step, s_s.events, depth - 1, stats, f"C04/{tier}/browsing-spawning-{nth}", enabled=s_s.enabled,
                      level_log=log_s, max_states=None if tier == "quick" else 250000)
        stats.notes[f"levels_browsing_spawning_{nth}"] = log_s
    s_c = Search(tier, "core-cased" if tier == "quick" else "full-cased", prefix=(("start", "ab"),))
    log_c: List[Dict[str, int]] = []
    bfs_histories(s_c.step, s_c.events, depth - 1, stats, f"C04/{tier}/browsing-cased-types", enabled=s_c.enabled, level_log=log_c,
                  max_states=None if tier == "quick" else 250000)
    stats.notes["levels_browsing_cased_types"] = log_c
    s_short = Search(tier, "short-steps")
    if tier != "quick":
        bfs_histories(s_short.step, s_short.events, depth + 1, stats, f"C04/{tier}/short-steps",
                      enabled=s_short.enabled, level_log=log2, max_states=400000)
    stats.notes["levels"] = log
    stats.notes["levels_short_steps"] = log2
    stats.notes["events"] = len(s.events)
    stats.notes["events_short_steps"] = len(s_short.events)
    rule = ("every history of <= depth events (response datagrams via AsyncListener.datagram_received with distinct "
            "bytes per occurrence, clock steps from 1 ms to 3 h, browser start/cancel); state = canonical cache + "
            "purge phase + per-browser live set, scheduler heap and timers + question history")
    assumptions = [
        "pointer owner names are exactly a browsed type; no case-only twins inside one datagram; a browser is not "
        "started while an expired-but-unpurged pointer of its types is cached (such histories are not extended)",
        "the duplicate-datagram guard is bypassed by distinct message ids (C16 covers it)",
        "AsyncServiceBrowser (callbacks in the loop); the thread-based ServiceBrowser shares _ServiceBrowserBase",
    ]
    return stats, rule, assumptions, {"depth_browser_running_from_start": depth,
                                      "depth_no_browser_at_start": depth - 1 if tier == "quick" else depth,
                                      "depth_full_alphabet": depth, "depth_short_clock_steps": None if tier == "quick" else depth + 1,
                                      "events": len(s.events)}


def replay(data: Dict[str, Any]) -> int:
    s = Search(data["tier"], data.get("variant", "full"), tuple(tuple(e) for e in data.get("prefix", ())))
    hist = tuple(tuple(e) for e in data["history"])
    print("history:", s.describe(hist))
    v, c1, _ = s.step(hist, verbose=True)
    _, c2, _ = s.step(hist)
    if digest(c1) != digest(c2):
        print("HARNESS-ERROR: replay is not deterministic")
        return 2
    if v:
        print("VIOLATION reproduced:", v["what"])
        return 1
    print("no violation on this tree")
    return 0
