"""C13 - queries carry known answers and are not needlessly repeated (E1, full product)."""
from __future__ import annotations

import itertools
from typing import Any, Dict, List, Optional, Sequence, Set, Tuple

from .. import wire
from ..explore import Stats, digest, explore_product
from ..models.cache_model import ident
from ..models.responder_model import Svc
from ..scen import Decoded, RandPolicy, make_info, register
from ..world import HarnessError, World

ID = "C13"
TECHNIQUE = ("stateless exploration of full product grids on real instances: cache contents (0..300 pointer records at "
             "ages below/at/above half TTL, expired-unpurged) x browser start-up queries; two askers of one question "
             "(own browsers, or a query heard as responder) at gaps 0/1/998/999/1000/1001 ms x known-answer relations; "
             "service-info lookups x cache states x timeouts x forced types; oracle on the decoded query datagrams")

TA = "_a._tcp.local."
HALF = 2_250_000  # ms: half of the 4500 s TTL


def ptr(i: int, ttl: int) -> tuple:
    return ("PTR", TA, 1, ttl, f"i{i}._a._tcp.local.")


class Lst:
    def add_service(self, *a: Any) -> None: pass
    def remove_service(self, *a: Any) -> None: pass
    def update_service(self, *a: Any) -> None: pass


def query_groups(w: World, host: str, since_ms: float) -> List[Tuple[float, List[Decoded]]]:
    """Query datagrams sent by `host`, grouped by send instant."""
    out: Dict[float, List[Decoded]] = {}
    for s in w.net.trace:
        if s.host == host and s.t_us / 1000 >= since_ms:
            d = Decoded(s)
            if not d.is_response:
                out.setdefault(d.t_ms, []).append(d)
    return sorted(out.items())


def check_ka_group(problems: List[str], t: float, group: List[Decoded], want_q: List[Tuple[str, int, bool]],
                   want_ka: Dict[tuple, float], label: str) -> None:
    """One query (possibly several datagrams at one instant): questions, known answers with remaining TTL, TC bits."""
    qs: List[Tuple[str, int, bool]] = []
    kas: List[Tuple[tuple, int]] = []
    for n, d in enumerate(group):
        m = d.msg
        last = n == len(group) - 1
        if m.truncated != (not last):
            problems.append(f"tc: {label}: datagram {n + 1}/{len(group)} has TC={m.truncated}")
        for q in m.questions:
            qs.append((q[1], q[2], bool(q[3] & 0x8000)))
        for r in m.answers:
            kas.append((ident(r), r[3]))
        if m.authorities or m.additionals:
            problems.append(f"format: {label}: query carries authority/additional records")
        if len(d.sent.data) > 1460 and len(m.questions) + len(m.answers) > 1:
            problems.append(f"format: {label}: {len(d.sent.data)}-byte query datagram")
    if sorted(qs) != sorted(want_q):
        problems.append(f"questions: {label}: asks {sorted(qs)}, expected {sorted(want_q)}")
    got = [i for i, _ in kas]
    if len(got) != len(set(got)):
        problems.append(f"known-answers: {label}: a known answer is listed twice")
    if set(got) != set(want_ka):
        extra = sorted(set(got) - set(want_ka), key=repr)[:3]
        missing = sorted(set(want_ka) - set(got), key=repr)[:3]
        problems.append(f"known-answers: {label}: {len(got)} listed, {len(want_ka)} cached records have more than half "
                        f"their TTL left (unexpected {extra}, missing {missing})")
    else:
        for i, ttl in kas:
            rem = want_ka[i]
            if not (int(rem) - 1 <= ttl <= int(rem) + 1):
                problems.append(f"known-answers: {label}: {i} listed with TTL {ttl}, remaining TTL is {rem:.3f} s")
                break


# --------------------------------------------------------------------------------------------------
# family A/B: browser start-up queries vs. cache contents
# --------------------------------------------------------------------------------------------------


def fam_browser(p: Dict[str, Any], problems: List[str], w: World) -> Tuple[str, float]:
    from zeroconf import DNSQuestionType
    from zeroconf.asyncio import AsyncServiceBrowser

    host = w.new_zeroconf()
    zc = host.zc
    t_start = w.now_ms
    t0 = t_start + 5000
    w.advance_to_ms(t0)
    # cache content: n records per TTL class, all received at t0
    classes = {"half": 4500, "fresh": 9000, "nearly": 2251, "expired": 2250, "floor": 60}
    recs: List[tuple] = []
    n = p["n"]
    for ci, (cname, ttl) in enumerate(classes.items()):
        if cname in p["classes"]:
            for k in range(n):
                recs.append(ptr(ci * 1000 + k, ttl))
    created: Dict[tuple, Tuple[float, int]] = {}
    for chunk in range(0, len(recs), 40):
        part = recs[chunk:chunk + 40]
        w.net.inject(host, wire.encode(chunk + 1, 0x8400, (), part), ("10.0.0.50", 5353))
        for r in part:
            created[ident(r)] = (w.now_ms, max(r[3], 1125))
    w.settle()
    tq = t0 + HALF + p["dq"]
    forced = {None: None, "QU": DNSQuestionType.QU, "QM": DNSQuestionType.QM}[p["forced"]]
    w.advance_to_ms(tq - 20)
    AsyncServiceBrowser(zc, TA, listener=Lst(), question_type=forced)
    w.advance_to_ms(tq + 16_000)
    groups = query_groups(w, host.name, tq - 25)
    offs = [round(t - tq, 3) for t, _ in groups]
    if offs[:4] != [0, 1000, 5000, 14000]:
        problems.append(f"schedule: queries at {offs} ms relative to the expected first query")
    for k, (t, grp) in enumerate(groups[:4]):
        qu = (p["forced"] == "QU") if p["forced"] else (k == 0)
        want_ka = {i: (c + ttl * 1000 - t) / 1000 for i, (c, ttl) in created.items() if c + ttl * 500 > t}
        check_ka_group(problems, t, grp, [(TA, 12, qu)], want_ka, f"start-up query {k + 1} (+{t - tq:.0f} ms)")
    return host.name, tq


# --------------------------------------------------------------------------------------------------
# family C: duplicate question suppression
# --------------------------------------------------------------------------------------------------


def fam_suppress(p: Dict[str, Any], problems: List[str], w: World) -> Tuple[str, float]:
    from zeroconf import DNSQuestionType
    from zeroconf.asyncio import AsyncServiceBrowser

    host = w.new_zeroconf()
    zc = host.zc
    heard = p["first"] == "heard"
    if heard or p.get("between"):
        # the instance must be an authoritative responder for the type to take note of the question
        register(w, host, make_info(Svc(TA, "own._a._tcp.local.", "own.local.", 80, b"", [bytes([10, 0, 0, 1])], [])))
        register(w, host, make_info(Svc("_b._tcp.local.", "ownb._b._tcp.local.", "own.local.", 81, b"", [bytes([10, 0, 0, 1])], [])))
    w.advance(3000)
    if p["rel"] == "stale-held":
        # a pointer this instance has held for more than half of its TTL: it is still cached, but the instance would not list
        # it as a known answer any more - it needs to hear it again
        w.net.inject(host, wire.response([ptr(7, 4500)]), ("10.0.0.50", 5353))
        w.settle()
        w.advance(2_400_000)
    base = [ptr(1, 4500), ptr(2, 4500)]
    if p.get("heard_q") == "same-name":
        w.net.inject(host, wire.response([("TXT", TA, 1, 4500, b"\x01x")]), ("10.0.0.51", 5353))
    w.net.inject(host, wire.response(base), ("10.0.0.50", 5353))
    w.settle()
    w.advance(2000)
    t1 = w.now_ms + 100
    if p.get("tick"):
        # let the periodic 10 s cache/history clean-up fall between the two askers (50 ms after the first, or `tick_after`)
        t_birth = 1_000_000.0
        t1 = t_birth + (int((w.now_ms + 1000 - t_birth) // 10_000) + 1) * 10_000 - p.get("tick_after", 50)
    gap, rel = p["gap"], p["rel"]  # rel: the FIRST asker's known answers relative to what the second asker knows at t2
    t2 = t1 + gap
    own_ptr = ("PTR", TA, 1, 4500, "own._a._tcp.local.")
    loop = w.loop
    box: Dict[str, Any] = {}

    def inject(data: bytes, src: str = "10.0.0.50") -> None:
        # (a one-shot resolver multicasts its QM question from an ephemeral port: heard all the same)
        w.net.inject(host, data, (src, p.get("heard_port", 5353) if src != "10.0.0.50" else 5353))

    if heard:
        known_at_t2 = list(base) + [own_ptr]
        first_ka = {"empty": [], "subset": [base[0]], "subset-b": [base[1]], "equal": known_at_t2, "superset": known_at_t2 + [ptr(9, 4500)],
                    "stale-held": known_at_t2 + [ptr(7, 4500)]}[rel]
        # (RFC 6762 s.7.3: suppressed only if the list holds no record this host "would not also put in its own" list - a
        # record it holds with half of its TTL gone is not one it would list, and nobody will answer it to the other asker)
        contained = rel not in ("superset", "stale-held")
        # the heard query may carry further QM questions before or after ours (all must be remembered)
        qs = {"single": [("Q", TA, 12, 1)], "ours-first": [("Q", TA, 12, 1), ("Q", "_b._tcp.local.", 12, 1)],
              "ours-last": [("Q", "_b._tcp.local.", 12, 1), ("Q", "ownb._b._tcp.local.", 33, 1), ("Q", TA, 12, 1)],
              "ours-after-qu": [("Q", "_b._tcp.local.", 12, 0x8001), ("Q", TA, 12, 1)],
              "same-name": [("Q", TA, 12, 1), ("Q", TA, 16, 1)]}[p.get("heard_q", "single")]
        if p.get("heard_q") == "same-name":
            # a second question for the same name and another type, with a known answer of its own that this instance holds
            # in its cache (learned a moment ago): still nothing it does not know
            first_ka = first_ka + [("TXT", TA, 1, 4500, b"\x01x")]
        if p.get("other_ka"):
            # the query's other question comes with a known answer of its own - this instance's own pointer for that type,
            # a record it certainly knows: the list still holds nothing it does not know
            first_ka = first_ka + [("PTR", "_b._tcp.local.", 1, 4500, "ownb._b._tcp.local.")]
        if p.get("heard_split"):
            # the heard query arrives as a truncated train: questions + part of the known answers (TC set), then the rest;
            # whatever this instance does not know travels in the FIRST datagram, the last one holds only records it knows
            ka1 = [ptr(9, 4500)] if rel == "superset" else first_ka[:1]
            ka2 = known_at_t2 if rel == "superset" else first_ka[1:]
            loop.call_at((t1 - 10) / 1000, inject, wire.query(qs, answers=ka1, id_=77, tc=True), "10.0.0.60")
            loop.call_at(t1 / 1000, inject, wire.query([], answers=ka2, id_=78), "10.0.0.60")
        else:
            loop.call_at(t1 / 1000, inject, wire.query(qs, answers=first_ka, id_=77), "10.0.0.60")
        if p.get("earlier_ms"):
            # the same question with the same known answers was already heard from another neighbour a little earlier:
            # what counts for the 999 ms is the latest hearing
            # (... or with another list that this instance knows just as well: two askings to remember, neither covers the other)
            ka_e = [base[0]] if p.get("earlier_ka") == "other" else first_ka
            loop.call_at((t1 - p["earlier_ms"]) / 1000, inject, wire.query(qs, answers=ka_e, id_=76), "10.0.0.61")
    else:
        # first asker: a browser of this very instance, forced QM, cancelled right after its first query; it lists the
        # cache as it is at t1, so 'subset'/'superset' are produced by changing the cache between t1 and t2
        if rel == "superset":
            inject(wire.encode(5, 0x8400, (), [ptr(9, 4500)]))
            w.settle()
        contained = rel != "superset"

        def start_first() -> None:
            box["b1"] = AsyncServiceBrowser(zc, TA, listener=Lst(), question_type=DNSQuestionType.QU if p["first"] == "own-qu"
                                            else DNSQuestionType.QM)

        def after_first() -> None:
            b1 = box["b1"]
            b1._async_cancel() if hasattr(b1, "_async_cancel") else w.spawn(b1.async_cancel())
            if rel == "superset":
                inject(wire.encode(6, 0x8400, (), [ptr(9, 0)]))  # withdrawn: the second asker no longer knows it
            elif rel == "subset":
                inject(wire.encode(6, 0x8400, (), [ptr(3, 4500)]))  # learned: the second asker knows more

        loop.call_at((t1 - 20) / 1000, start_first)
        loop.call_at((t1 + 0.3) / 1000, after_first)
    if p.get("between"):
        # between the two askers another neighbour asks the same question with a known answer this instance does not know;
        # that hearing suppresses nothing, and it does not undo what was asked or heard before it
        loop.call_at((t1 + p["between"]) / 1000, inject,
                     wire.query([("Q", TA, 12, 1)], answers=list(base) + [own_ptr, ptr(8, 4500)], id_=79), "10.0.0.62")
    second_type = {"QM": DNSQuestionType.QM, "QU": DNSQuestionType.QU, None: None}[p["second"]]

    def start_second() -> None:
        box["n_before"] = len(w.net.trace)
        box["b2"] = AsyncServiceBrowser(zc, TA, listener=Lst(), question_type=second_type)

    loop.call_at((t2 - 20) / 1000, start_second)
    if p.get("third_after"):
        def cancel_second() -> None:
            b2 = box["b2"]
            b2._async_cancel() if hasattr(b2, "_async_cancel") else w.spawn(b2.async_cancel())
        loop.call_at((t2 + 0.3) / 1000, cancel_second)
    w.advance_to_ms(t2 + 0.2)
    sent = [Decoded(s) for s in w.net.trace if s.host == host.name and abs(s.t_us / 1000 - t2) < 0.01]
    asked = [d for d in sent if not d.is_response and any(q[1] == TA and q[2] == 12 for q in d.msg.questions)]
    if not heard and gap == 0:
        # the first asker's own query goes out in the same instant: drop one query of its kind (QU or QM)
        first_qu = p["first"] == "own-qu"
        for k, d in enumerate(asked):
            if any(bool(q[3] & 0x8000) == first_qu for q in d.msg.questions):
                asked = asked[:k] + asked[k + 1:]
                break
    qu_second = p["second"] in ("QU", None)
    suppressed_expected = (not qu_second) and gap <= 999 and contained and p["first"] != "own-qu"  # only QM asks count
    if suppressed_expected and asked:
        problems.append(f"suppression: the QM question was asked again {gap} ms after it was "
                        f"{'heard' if heard else 'asked'} with known answers it fully knows")
    if p.get("third_after") and suppressed_expected and not asked:
        # a third asker of this instance: the second one's question was withheld, so the last time the question really was
        # asked or heard is still t1 - more than 999 ms ago by now
        t3 = t2 + p["third_after"]

        def start_third() -> None:
            box["b3"] = AsyncServiceBrowser(zc, TA, listener=Lst(), question_type=DNSQuestionType.QM)

        loop.call_at((t3 - 20) / 1000, start_third)
        w.advance_to_ms(t3 + 0.2)
        sent3 = [Decoded(s) for s in w.net.trace if s.host == host.name and abs(s.t_us / 1000 - t3) < 0.01]
        asked3 = [d for d in sent3 if not d.is_response and any(q[1] == TA and q[2] == 12 for q in d.msg.questions)]
        if t3 - t1 > 999 and not asked3:
            problems.append(f"suppression: a third asker {t3 - t1:.0f} ms after the question was last really asked or heard "
                            f"(a withheld attempt {p['third_after']} ms ago does not count) was suppressed")
    if not suppressed_expected and not asked:
        why = "QU questions are never suppressed" if qu_second else (
            f"{gap} ms > 999 ms" if gap > 999 else "the earlier asker listed a known answer this instance does not hold with more than half of its TTL")
        problems.append(f"suppression: the question was not asked although {why}")
    return host.name, t1


# --------------------------------------------------------------------------------------------------
# family D: service-info lookups
# --------------------------------------------------------------------------------------------------

NAME = "x._a._tcp.local."
SRV = ("SRV", NAME, 0x8001, 120, 0, 0, 80, "h.local.")
TXT = ("TXT", NAME, 0x8001, 4500, b"\x01a")
A1 = ("A", "h.local.", 0x8001, 120, bytes([10, 0, 0, 7]))
A2 = ("A", "h.local.", 0x8001, 120, bytes([10, 0, 0, 8]))
Q6 = ("AAAA", "h.local.", 0x8001, 120, bytes.fromhex("fe800000000000000000000000000007"))


def fam_lookup(p: Dict[str, Any], problems: List[str], w: World) -> Tuple[str, float]:
    from zeroconf import DNSQuestionType
    from zeroconf.asyncio import AsyncServiceInfo

    host = w.new_zeroconf()
    zc = host.zc
    w.advance(3000)
    state = p["cache"]
    # cache: each of SRV/TXT/A in {absent, fresh, stale}; records received at t_in, lookup starts so that the age is right
    present = [r for r, k in ((SRV, "srv"), (TXT, "txt"), (A1, "a")) if state[k] != "absent"]
    ages = {"srv": state["srv"], "txt": state["txt"], "a": state["a"]}
    t_lookup = w.now_ms + 4_000_000
    created: Dict[tuple, Tuple[float, int]] = {}
    for r, k in ((SRV, "srv"), (TXT, "txt"), (A1, "a")):
        if ages[k] == "absent":
            continue
        ttl = r[3]
        frac = 0.25 if ages[k] == "fresh" else 0.75
        t_in = t_lookup - ttl * 1000 * frac
        if ages[k] == "crossing":
            t_in = t_lookup + 450 - ttl * 500  # half of its TTL is over 450 ms into the lookup, between two of its queries
        w.loop.call_at(t_in / 1000, w.net.inject, host, wire.encode(len(created) + 1, 0x8400, (), [r]), ("10.0.0.50", 5353))
        created[ident(r)] = (t_in, ttl)
    if state["a"] != "absent" and state["srv"] == "absent":
        pass  # an address without SRV: the lookup does not know the host name yet
    info = AsyncServiceInfo(TA, NAME)
    if p.get("repeat"):
        # the application has used this very object for a lookup before (it timed out six seconds ago): the lookup judged below
        # is a lookup like any other - first query QU unless forced, and so on
        w.advance_to_ms(t_lookup - 6400)
        w.run_coro(info.async_request(zc, 400, None), max_ms=5000)
    w.advance_to_ms(t_lookup)
    forced = {None: None, "QU": DNSQuestionType.QU, "QM": DNSQuestionType.QM}[p["forced"]]
    timeout = p["timeout"]
    task = w.spawn(info.async_request(zc, timeout, forced))
    if p.get("stall"):
        # the event loop is busy elsewhere across one of the lookup's query instants and serves the wake-up late: the queries
        # that follow are still a second apart
        w.advance_to_ms(t_lookup + p["stall"][0])
        w.loop.now_us += int(p["stall"][1] * 1000)
    w.advance_to_ms(t_lookup + timeout + 500)
    if not task.done():
        problems.append("lookup: async_request did not return")
        return host.name, t_lookup
    groups = query_groups(w, host.name, t_lookup - 1)
    complete_from_cache = state["srv"] != "absent" and state["a"] != "absent" and True
    # a lookup is complete once it knows an address (text is never None); SRV is needed to know the host name
    if complete_from_cache:
        if groups:
            problems.append(f"lookup: {len(groups)} queries although the cache already holds SRV and an address")
        return host.name, t_lookup
    times = [t for t, _ in groups]
    if not groups:
        problems.append("lookup: nothing was asked although the cache does not suffice")
        return host.name, t_lookup
    if round(times[0] - t_lookup, 3) != 0:
        problems.append(f"lookup: first query {times[0] - t_lookup} ms after the call")
    for k in range(2, len(times)):
        if times[k] - times[k - 1] < 1000:
            gap = times[k] - times[k - 1]
            # the shape of the open finding: the interval after the *second* query is still the initial 200 ms + jitter (the
            # one-second interval only takes effect from the next round); any other short gap is a different violation
            cls = "spacing-second-to-third" if k == 2 and 219.5 <= gap <= 320.5 else "spacing"
            problems.append(f"{cls}: lookup queries {k} and {k + 1} are {gap:.0f} ms apart")
    if timeout >= 2000 and len(times) < 2:
        problems.append(f"lookup: only {len(times)} query in {timeout} ms")
    server_known = state["srv"] != "absent"
    asked_qm: Dict[Tuple[str, int], Tuple[float, Set[tuple]]] = {}  # this instance's own QM questions
    for k, (t, grp) in enumerate(groups):
        if t > t_lookup + timeout:
            problems.append(f"lookup: query sent {t - t_lookup:.0f} ms after the call, timeout {timeout}")
        qu = k == 0 and p["forced"] != "QM"  # later queries are QM whatever was forced
        fresh = {i for i, (c, ttl) in created.items() if c + ttl * 500 > t}
        needed: List[Tuple[str, int]] = []
        if ident(SRV) not in fresh:
            needed.append((NAME, 33))
        if ident(TXT) not in fresh:
            needed.append((NAME, 16))
        host_name = "h.local." if server_known else NAME
        needed += [(host_name, 1), (host_name, 28)]
        ka_of: Dict[Tuple[str, int], Set[tuple]] = {q: set() for q in needed}
        want_ka: Dict[tuple, float] = {}
        if server_known and ident(A1) in fresh:
            c, ttl = created[ident(A1)]
            want_ka[ident(A1)] = (c + ttl * 1000 - t) / 1000
            ka_of[(host_name, 1)] = {ident(A1)}
        got_q = [(q[1], q[2]) for d in grp for q in d.msg.questions]
        want_q: List[Tuple[str, int, bool]] = []
        for q in needed:
            prev = asked_qm.get(q)
            may_skip = (not qu) and prev is not None and t - prev[0] <= 999 and prev[1] <= ka_of[q]
            if q in got_q:
                if may_skip:
                    problems.append(f"suppression: lookup query {k + 1} repeats QM question {q} {t - prev[0]:.0f} ms after "
                                    f"asking it with the same known answers")
                want_q.append((q[0], q[1], qu))
                if not qu:
                    asked_qm[q] = (t, ka_of[q])
            elif not may_skip:
                want_q.append((q[0], q[1], qu))  # will be reported as missing by check_ka_group
        if not any((q[0], q[1]) == (host_name, 1) for q in want_q if (q[0], q[1]) in got_q):
            want_ka = {}  # the A question was (legitimately) left out, so its known answer is too
        check_ka_group(problems, t, grp, want_q, want_ka, f"lookup query {k + 1} (+{t - t_lookup:.0f} ms)")
    return host.name, t_lookup


# --------------------------------------------------------------------------------------------------


def points(tier: str) -> List[Dict[str, Any]]:
    pts: List[Dict[str, Any]] = []
    ns = [0, 1, 2, 60, 300] if tier != "quick" else [0, 1, 2, 60]
    class_sets = [["half"], ["half", "fresh"], ["half", "fresh", "nearly", "expired", "floor"], ["fresh"], ["expired"]]
    for n in ns:
        for cs in class_sets:
            if n == 0 and cs != class_sets[0]:
                continue
            if n >= 60 and cs not in (class_sets[1], class_sets[2]):
                continue
            for dq in (-1001, -1, 0, 1, 1001):
                for forced in (None, "QU", "QM"):
                    if tier == "quick" and n >= 60 and (forced is not None or dq not in (-1, 1)):
                        continue
                    pts.append({"fam": "browser", "n": n, "classes": cs, "dq": dq, "forced": forced})
    if tier == "quick":
        pts.append({"fam": "browser", "n": 300, "classes": class_sets[1], "dq": -1, "forced": None})
    for first in ("own", "heard", "own-qu"):
        for gap in (0, 1, 500, 998, 999, 1000, 1001, 5000):
            for rel in ("empty", "subset", "equal", "superset"):
                if first in ("own", "own-qu") and (rel == "empty" or (gap == 0 and rel != "equal")):
                    continue  # an own browser lists what the cache holds; the cache cannot change within one instant
                if first == "heard" and gap == 0:
                    continue  # hearing and asking in the very same instant: either order is legitimate
                for second in ("QM", "QU", None):
                    pts.append({"fam": "suppress", "first": first, "gap": gap, "rel": rel, "second": second})
                    if second == "QM" and gap in (500, 998, 999, 1000):
                        pts.append({"fam": "suppress", "first": first, "gap": gap, "rel": rel, "second": second, "tick": True})
                    if first == "heard" and second == "QM" and gap in (1, 500, 999, 1000):
                        pts.append({"fam": "suppress", "first": first, "gap": gap, "rel": rel, "second": second,
                                    "heard_split": True})
                    if second == "QM" and gap in (500, 700, 999) and rel == "equal" and first in ("heard", "own"):
                        for third in (300, 500, 998):
                            if gap + third > 999:
                                pts.append({"fam": "suppress", "first": first, "gap": gap, "rel": rel, "second": second,
                                            "third_after": third})
                    if first == "heard" and second == "QM" and gap in (1, 500, 999) and rel == "equal":
                        pts.append({"fam": "suppress", "first": first, "gap": gap, "rel": "stale-held", "second": second})
                    if first == "heard" and second == "QM" and gap in (500, 998, 999, 1000):
                        for e in (1, 600, 999, 1500):
                            pts.append({"fam": "suppress", "first": first, "gap": gap, "rel": rel, "second": second,
                                        "earlier_ms": e})
                    if first == "heard" and second == "QM":
                        for hq in ("ours-first", "ours-last", "ours-after-qu", "same-name"):
                            pts.append({"fam": "suppress", "first": first, "gap": gap, "rel": rel, "second": second,
                                        "heard_q": hq})
                            if gap in (500, 999, 1000):
                                pts.append({"fam": "suppress", "first": first, "gap": gap, "rel": rel, "second": second,
                                            "heard_q": hq, "other_ka": True})
                    if first == "heard" and second == "QM" and gap in (500, 999, 1000):
                        pts.append({"fam": "suppress", "first": first, "gap": gap, "rel": rel, "second": second,
                                    "heard_port": 40404})
                    if first == "heard" and second == "QM" and rel == "subset" and gap in (500, 998, 999, 1000):
                        # the periodic clean-up runs when the earlier of two remembered askings is over a second old and the
                        # later one is not
                        for e, ta in ((700, 400), (900, 200), (999, 50)):
                            pts.append({"fam": "suppress", "first": first, "gap": gap, "rel": "subset-b", "second": second,
                                        "earlier_ms": e, "earlier_ka": "other", "tick": True, "tick_after": ta})
                    if first in ("heard", "own") and second == "QM" and gap in (500, 999, 1000, 1001):
                        for b in (1, 200, gap - 1):
                            if 0 < b < gap:
                                pts.append({"fam": "suppress", "first": first, "gap": gap, "rel": rel, "second": second,
                                            "between": b})
    for srv, txt in (("crossing", "absent"), ("crossing", "fresh"), ("fresh", "crossing"), ("crossing", "crossing")):
        for timeout in (1000, 3000):
            for jit in (0.0, 1.0):
                pts.append({"fam": "lookup", "cache": {"srv": srv, "txt": txt, "a": "absent"}, "timeout": timeout,
                            "forced": None, "jitter": jit})
    for srv, txt, a in itertools.product(("absent", "fresh", "stale"), repeat=3):
        if a != "absent" and srv == "absent" and False:
            continue
        for timeout in (200, 1000, 3000, 10000):
            for forced in (None, "QU", "QM"):
                for jit in ((0.0, 1.0) if tier == "quick" else (0.0, 0.5, 1.0)):
                    pts.append({"fam": "lookup", "cache": {"srv": srv, "txt": txt, "a": a}, "timeout": timeout,
                                "forced": forced, "jitter": jit})
                    if srv == "absent" and txt == "absent" and jit == 0.0:
                        pts.append({"fam": "lookup", "cache": {"srv": srv, "txt": txt, "a": a}, "timeout": timeout,
                                    "forced": forced, "jitter": jit, "repeat": True})
                    if srv == "absent" and a == "absent" and timeout == 10000 and forced is None:
                        for at in (100, 1100, 1300, 2300, 3300):
                            for ms in (150, 400, 900, 1400, 2500):
                                pts.append({"fam": "lookup", "cache": {"srv": srv, "txt": txt, "a": a}, "timeout": timeout,
                                            "forced": forced, "jitter": jit, "stall": [at, ms]})
    return pts


def run_point(p: Dict[str, Any], verbose: bool = False) -> Tuple[Optional[Dict[str, Any]], str, int]:
    problems: List[str] = []
    with World(rand=RandPolicy.const(p.get("jitter", 0.0))) as w:
        fam = {"browser": fam_browser, "suppress": fam_suppress, "lookup": fam_lookup}[p["fam"]]
        hname, t_ref = fam(p, problems, w)
        excs = w.exceptions()
        if excs:
            problems.append(f"exception in the event loop: {excs[0]}")
        obs = digest([(round(s.t_us / 1000 - t_ref, 3), s.dest[:2], s.data) for s in w.net.trace
                      if s.host == hname and s.t_us / 1000 >= t_ref - 100])
        if verbose:
            for s in w.net.trace:
                if s.host == hname and s.t_us / 1000 >= t_ref - 100:
                    d = Decoded(s)
                    print(f"    +{d.t_ms - t_ref:.1f}", d.brief()[:200])
    verdict = None
    if problems:
        # the open finding's class only names the verdict when nothing else is wrong with this execution
        problems.sort(key=lambda s: s.startswith("spacing-second-to-third"))
        verdict = {"what": f"C13 {p}: {problems[0][:600]}", "replay": {"problems": problems[:5]},
                   "signature": {"check": problems[0].split(":")[0]}}
    return verdict, obs, w.loop.handles_run


def run(tier: str, seed: int) -> Tuple[Stats, str, List[str], Dict[str, Any]]:
    stats = Stats()
    pts = points(tier)
    for k in (3, len(pts) // 2, len(pts) - 2):
        if run_point(pts[k])[1] != run_point(pts[k])[1]:
            raise HarnessError("C13 scenario is not deterministic")
    explore_product(run_point, pts, stats, f"C13/{tier}")
    stats.states = len(stats.outcomes)
    fams: Dict[str, int] = {}
    for p in pts:
        fams[p["fam"]] = fams.get(p["fam"], 0) + 1
    rule = ("full product per family: browser start-up queries x cache of n x {half, fresh, nearly expired, expired-"
            "unpurged, floored} pointer records x query instant at half TTL -1001/-1/0/+1/+1001 ms x forced type; "
            "second asker x first asker (own browser / heard as responder) x gap x known-answer relation x type; "
            "lookups x 27 cache states x 4 timeouts x forced type x jitter; outcomes = distinct query traces")
    assumptions = [
        "remaining TTL of a known answer may differ by one second from the exact value (truncation)",
        "'more than half of the TTL left' is strict: a record at exactly half is not listed",
        "a browser's or lookup's own earlier QM question counts as 'asked by this instance'",
        "lookup family: missing records never arrive (C18 covers arrivals); cache states fresh = 25 %, stale = 75 % of the TTL",
    ]
    return stats, rule, assumptions, {"points": len(pts), "families": fams}


def replay(data: Dict[str, Any]) -> int:
    p = dict(data["point"])
    v, o1, _ = run_point(p, verbose=True)
    if o1 != run_point(p)[1]:
        print("HARNESS-ERROR: replay is not deterministic")
        return 2
    if v:
        print("VIOLATION reproduced:", v["what"])
        for x in v["replay"]["problems"]:
            print("   ", x)
        return 1
    print("no violation on this tree")
    return 0
