"""C11 - replies are routed and formatted as RFC 6762 s.5.4, 6 and 6.7 require (E1, full product)."""
from __future__ import annotations

import itertools
import socket
from typing import Any, Dict, List, Optional, Set, Tuple

from .. import wire
from ..explore import Stats, digest, explore_product
from ..models import responder_model as rm
from ..models.cache_model import ident
from ..models.responder_model import Svc
from ..scen import Peer, RandPolicy, decoded_trace, make_info, register
from ..world import HarnessError, MDNS4, MDNS6, World

ID = "C11"
TECHNIQUE = ("stateless exploration of the full product grid (question mixes QU/QM x probe/no probe x id x source port "
             "x source family x age of the host's last multicast around a quarter of each TTL x single/dual sockets) on "
             "a real instance; routing/format oracle on the decoded network trace")

TA = "_a._tcp.local."
S1 = Svc(TA, "s1._a._tcp.local.", "h1.local.", 80, b"\x03a=b", [bytes([10, 0, 0, 1])], [])
S3 = Svc("_b._tcp.local.", "s3._b._tcp.local.", "h3.local.", 82, b"", [bytes([10, 0, 0, 3])],
         [bytes.fromhex("fe800000000000000000000000000003")], host_ttl=60, other_ttl=300)
REG = {"S1": S1, "S3": S3}

QUESTIONS: Dict[str, List[Tuple[str, int, bool]]] = {
    "ptr-qm": [(TA, 12, False)], "ptr-qu": [(TA, 12, True)], "srv-qu": [(S1.name, 33, True)], "srv-qm": [(S1.name, 33, False)],
    "txt-qu": [(S1.name, 16, True)], "a-qu": [(S1.server, 1, True)], "aaaa-qu": [(S1.server, 28, True)],
    "aaaa-qm": [(S3.server, 28, False)], "any-qu": [(S1.name, 255, True)], "enum-qu": [(rm.ENUM, 12, True)],
    "ptr-qm+srv-qu": [(TA, 12, False), (S1.name, 33, True)], "ptr-qu+a-qm": [(TA, 12, True), (S1.server, 1, False)],
    "srv-qu+txt-qu": [(S1.name, 33, True), (S1.name, 16, True)],
    "ptr-qu+srv-qm+a-qu": [(TA, 12, True), (S1.name, 33, False), (S1.server, 1, True)],
    "ptrb-qu+ptr-qm": [("_b._tcp.local.", 12, True), (TA, 12, False)], "other-qu": [("_zz._tcp.local.", 12, True)],
    "ptrb-qu": [("_b._tcp.local.", 12, True)], "srvb-qu": [(S3.name, 33, True)], "ab-qu": [(S3.server, 1, True)],
    # QU first, QM last, all about the service announced last (its answers are under the one-second protection at 400 ms)
    "ptrb-qu+ab-qm": [("_b._tcp.local.", 12, True), (S3.server, 1, False)],
    "srvb-qu+ptrb-qm": [(S3.name, 33, True), ("_b._tcp.local.", 12, False)],
    # the IPv6 address record of a host that has one, asked by unicast (on IPv6 sockets the host hears its own multicast with
    # the interface's scope id attached)
    "aaaab-qu": [(S3.server, 28, True)], "aaaab-qu+ptrb-qm": [(S3.server, 28, True), ("_b._tcp.local.", 12, False)],
    # the same question twice in one query, once asking for a multicast and once for a unicast reply (each is owed its own)
    "ptr-qm+ptr-qu": [(TA, 12, False), (TA, 12, True)], "srv-qu+srv-qm": [(S1.name, 33, True), (S1.name, 33, False)],
    # a question for the root name next to one the host answers (a legacy reply has to echo both)
    "root-qm+ptr-qm": [(".", 255, False), (TA, 12, False)],
}
# ages of the host's own last multicast (ms after the last announcement looped back) around ttl/4 of 60/120/300/4500 s
AGES = {"400ms": 400, "fresh": 5_000, "15s-1": 14_999, "15s": 15_000, "15s+1": 15_001, "30s-1": 29_999, "30s": 30_000, "30s+1": 30_001,
        "75s": 75_000, "75s+1": 75_001, "200s": 200_000, "1125s-1": 1_124_999, "1125s": 1_125_000, "1125s+1": 1_125_001,
        "5000s": 5_000_000}


def grid(tier: str) -> List[Dict[str, Any]]:
    pts = []
    ages = list(AGES)
    modes = ("single", "dual", "single6")
    jitters = (0.0,) if tier == "quick" else (0.0, 1.0)
    for q, probe, id_, port, fam, age, socks, jit in itertools.product(
            QUESTIONS, (False, True), (0, 0x1234), (5353, 1234), ("v4", "v6", "v4m"), ages, modes, jitters):
        # 'v4m': an IPv4 querier heard on a dual-stack IPv6 socket - the source is the IPv4-mapped address ::ffff:a.b.c.d
        if fam == "v4m":
            if socks == "single" or age not in ("400ms", "fresh", "30s+1", "5000s"):
                continue
        elif (fam == "v6") != (socks == "single6") and socks != "dual":
            continue
        if age.endswith("+1") and port == 5353 and socks == "single" and id_ == 0 and any(qu for _, _, qu in QUESTIONS[q]):
            # the same QU query (byte-identical, same source) already arrived 800 ms earlier, before the quarter-TTL boundary
            pts.append({"q": q, "probe": probe, "id": id_, "port": port, "fam": fam, "age": age, "socks": socks,
                        "pre_copy_ms": 800, "jitter": jit})
        if age == "400ms" and port == 5353 and id_ == 0 and any(qu for _, _, qu in QUESTIONS[q]):
            # ... or 200 ms earlier, while every answer to its QM questions is still held back by the one-second
            # protection: no datagram at all (not even the host's own looped-back reply) separates the two copies
            pts.append({"q": q, "probe": probe, "id": id_, "port": port, "fam": fam, "age": age, "socks": socks,
                        "pre_copy_ms": 200, "jitter": jit})
        if age in ("30s+1", "75s+1", "1125s+1", "5000s") and port == 5353 and id_ == 0 and fam == "v4" and \
                any(qu for _, _, qu in QUESTIONS[q]):
            # a neighbour multicast *sibling* records (same name, type and class, other rdata: another instance of the type,
            # another address of the host name) five seconds ago: that says nothing about when our records were multicast
            pts.append({"q": q, "probe": probe, "id": id_, "port": port, "fam": fam, "age": age, "socks": socks,
                        "sibling": True, "jitter": jit})

        pts.append({"q": q, "probe": probe, "id": id_, "port": port, "fam": fam, "age": age, "socks": socks, "jitter": jit})
        if probe and age in ("400ms", "fresh", "30s+1", "5000s") and id_ == 0:
            pts.append({"q": q, "probe": probe, "id": id_, "port": port, "fam": fam, "age": age, "socks": socks, "jitter": jit,
                        "probe_ka": True})
        if port != 5353 and socks in ("single", "single6") and age in ("fresh", "5000s") and not probe:
            for pre in (50, 390):
                pts.append({"q": q, "probe": probe, "id": id_, "port": port, "fam": fam, "age": age, "socks": socks, "jitter": jit,
                            "pre_tc_ms": pre})
        if q == "ptr-qm" and fam == "v4" and age == "fresh" and not probe and jit == jitters[0] and socks != "single6":
            pts.append({"fam": "big", "socks": socks, "port": port, "id": id_ or 0x3a7b if port != 5353 else id_})
        if fam == "v6" and age in ("400ms", "fresh", "30s+1", "5000s"):
            # the query arrived from a link-local address of another zone than the receiving socket's own (a socket bound to
            # the wildcard address hears every link): the reply has to go back to that zone
            pts.append({"q": q, "probe": probe, "id": id_, "port": port, "fam": fam, "age": age, "socks": socks, "jitter": jit,
                        "scope": 7})
    return pts


def run_big(p: Dict[str, Any], verbose: bool = False) -> Tuple[Optional[Dict[str, Any]], str, int]:
    """A type with dozens of instances: the unicast reply to a legacy (or QU) query does not fit one datagram.  Every datagram
    of it goes to the querier, carries the query's id and no cache-flush bit; together they hold every pointer."""
    problems: List[str] = []
    n_inst = 40
    with World(rand=RandPolicy.const(0.0)) as w:
        host = w.new_zeroconf(mode=p["socks"])
        many = [Svc(TA, f"inst{i:02d}._a._tcp.local.", f"host{i:02d}.local.", 8000 + i, b"\x09key=value", [bytes([10, 0, 1, i])], [])
                for i in range(n_inst)]
        for s in many:
            register(w, host, make_info(s), cooperating_responders=True)
        w.advance(3000)
        legacy = p["port"] != 5353
        src = ("10.0.0.99", p["port"])
        data = wire.query([("Q", TA, 12, 1 if legacy else 0x8001)], id_=p["id"])
        rx = host.transports()[0] if p["socks"] == "single" else [t for t in host.transports() if t.sock.role == ("respond" if legacy else "listen") and t.sock.family == socket.AF_INET][0]
        n0 = len(w.net.trace)
        rx.protocol.datagram_received(data, src)
        w.settle()
        w.advance(1500)
        from ..scen import Decoded
        dec = [Decoded(s) for s in w.net.trace[n0:] if s.host == host.name]
        uni = [d for d in dec if not d.multicast]
        if len(uni) < 2:
            problems.append(f"big: {len(uni)} unicast datagram(s) for {n_inst} instances (the scenario expects a reply of several)")
        ptrs = set()
        for k, d in enumerate(uni):
            if tuple(d.sent.dest[:2]) != src:
                problems.append(f"big: unicast datagram {k} sent to {d.sent.dest}, query came from {src}")
            if d.msg.id != p["id"]:
                problems.append(f"big: unicast datagram {k} of {len(uni)} carries id {d.msg.id:#x}, the query had {p['id']:#x}")
            if not d.is_response:
                problems.append(f"big: unicast datagram {k} is not flagged as a response")
            if any(r[2] & 0x8000 for r in d.msg.records()):
                problems.append(f"big: unicast datagram {k} carries cache-flush bits")
            ptrs |= {str(r[4]).lower() for r in d.msg.answers if r[0] == "PTR"}
        if legacy and uni and [(q[1], q[2]) for q in uni[0].msg.questions] != [(TA, 12)]:
            problems.append(f"big: the first datagram echoes {uni[0].msg.questions}")
        if uni and ptrs != {s.name for s in many}:
            problems.append(f"big: the unicast reply holds {len(ptrs)} of {n_inst} pointers")
        excs = w.exceptions()
        if excs:
            problems.append(f"exception in the event loop: {excs[0]}")
        obs = digest([(round(d.t_ms, 3), d.sent.dest[:2], len(d.sent.data)) for d in dec])
    verdict = None
    if problems:
        verdict = {"what": f"C11 {p}: {problems[0]}", "replay": {"problems": problems[:5]}, "signature": {"check": problems[0].split(":")[0]}}
    return verdict, obs, w.loop.handles_run


def run_point(p: Dict[str, Any], verbose: bool = False) -> Tuple[Optional[Dict[str, Any]], str, int]:
    if p.get("fam") == "big":
        return run_big(p, verbose)
    problems: List[str] = []
    with World(rand=RandPolicy.const(p.get("jitter", 0.0))) as w:
        host = w.new_zeroconf(mode=p["socks"])
        peer = Peer(w)
        from .c12 import Seen, key as seen_key
        seen_proc = Seen(host.zc)  # what the host processed (the duplicate guard drops byte-identical repeats)
        for s in REG.values():
            register(w, host, make_info(s))
        # the last announcement of the last registration looped back just now (+100 us)
        w.advance(1)
        t_ann = max(s.t_us for s in w.net.trace if s.host == host.name and s.multicast) / 1000 + 0.1
        tq = t_ann + AGES[p["age"]]
        w.advance_to_ms(tq - p.get("pre_copy_ms", 0) - 1 if p.get("pre_copy_ms") else tq)
        qs = QUESTIONS[p["q"]]
        auth = [("PTR", TA, 1, 4500, "proposed._a._tcp.local.")] if p["probe"] else []
        # (a probe may share its datagram with an ordinary question and that question's known answers: it stays a probe)
        ka = [("PTR", "_zz._tcp.local.", 1, 4500, "q._zz._tcp.local.")] if p.get("probe_ka") else []
        data = wire.query([("Q", n, t, 0x8001 if qu else 1) for n, t, qu in qs] + ([("Q", "_zz._tcp.local.", 12, 1)] if ka else []),
                          answers=ka, authorities=auth, id_=p["id"])
        v6 = p["fam"] in ("v6", "v4m")
        src_ip = ("::ffff:10.0.0.99" if p["fam"] == "v4m" else "fe80::99") if v6 else "10.0.0.99"
        # which socket receives: multicast queries arrive on the listen socket (dual) / the only socket (single);
        # legacy unicast queries are sent to the host's own address, i.e. a respond socket
        if p["socks"] in ("single", "single6"):
            rx = host.transports()[0]
        elif p["port"] != 5353:
            rx = [t for t in host.transports() if t.sock.role == "respond" and
                  (t.sock.family == socket.AF_INET6) == v6][0]
        else:
            rx = [t for t in host.transports() if (t.sock.role == "listen" and not v6) or
                  (v6 and t.sock.role == "respond" and t.sock.family == socket.AF_INET6)][0]
        src = (src_ip, p["port"], 0, 0 if p["fam"] == "v4m" else p.get("scope", host.scope_id)) if v6 else (src_ip, p["port"])
        if p.get("sibling"):
            w.advance_to_ms(tq - 5000)
            sib = wire.response([("PTR", TA, 1, 4500, "neighbour._a._tcp.local."), ("PTR", "_b._tcp.local.", 1, 4500, "nb._b._tcp.local."),
                                 ("A", S1.server, 1, 120, bytes([10, 0, 0, 201])), ("A", S3.server, 1, 60, bytes([10, 0, 0, 203])),
                                 ("AAAA", S3.server, 1, 60, bytes.fromhex("fe8000000000000000000000000000cc"))])
            rx.protocol.datagram_received(sib, ("10.0.0.77", 5353) if not v6 else ("fe80::77", 5353, 0, host.scope_id))
            w.settle()
            w.advance_to_ms(tq)
        if p.get("pre_copy_ms"):
            w.advance_to_ms(tq - p["pre_copy_ms"])
            rx.protocol.datagram_received(data, src)
            w.settle()
            w.advance_to_ms(tq)
        n_before = len(w.net.trace)
        if p.get("pre_tc_ms"):
            # a multicast querier on the same machine (port 5353) is in the middle of a truncated query of its own: that is
            # another querier, and nothing of it belongs into the reply to this one
            w.advance_to_ms(tq - p["pre_tc_ms"])
            tc = wire.query([("Q", "_b._tcp.local.", 12, 1)], answers=[("PTR", "_b._tcp.local.", 1, 4500, "zz._b._tcp.local.")],
                            id_=0, tc=True)
            rx.protocol.datagram_received(tc, (src[0], 5353) + tuple(src[2:]))
            w.settle()
            w.advance_to_ms(tq)
        rx.protocol.datagram_received(data, src)
        w.settle()
        w.advance(1500)
        sent = [s for s in w.net.trace[n_before:] if s.host == host.name]
        from ..scen import Decoded
        dec = [Decoded(s) for s in sent]
        # ---- last multicast time per record (for the quarter-TTL rule), before the query
        last_mc: Dict[tuple, float] = {}
        for s in w.net.trace[:n_before]:
            if s.host == host.name and s.multicast:
                for r in wire.decode(s.data).records():
                    if r[3] > 0:
                        last_mc[ident(r)] = s.t_us / 1000 + 0.1
        exp = rm.answer(REG, [(n, t) for n, t, _ in qs], [])
        legacy = p["port"] != 5353
        # per-record treatment
        uni: Set[tuple] = set()
        uni_maybe: Set[tuple] = set()
        mc_now: Set[tuple] = set()
        mc_now_maybe: Set[tuple] = set()
        mc_any: Set[tuple] = set()
        no_mc: Set[tuple] = set()

        def recency_of(lm: Optional[float], ttl: int) -> str:
            if lm is None:
                return "old"
            edge = lm + ttl * 250
            return "edge" if abs(edge - tq) < 0.5 else ("recent" if edge > tq else "old")

        def recency(i: tuple, ttl: int) -> str:
            a = recency_of(last_mc.get(i), ttl)
            # the host's own third announcement is byte-identical to the second and is dropped by its duplicate guard
            # (see the C12 known finding): where "last multicast" on the wire and "last seen" by the host disagree,
            # the statement ("has not been seen multicast") does not decide - either routing is accepted
            times = [t for t in seen_proc.log.get(seen_key(i), []) if t < tq]
            b = recency_of(max(times) if times else None, ttl)
            return a if a == b else "edge"

        per_q: List[Tuple[bool, Dict[tuple, int]]] = []
        for n, t, qu in qs:
            e1 = rm.answer(REG, [(n, t)], [])
            recs = dict(e1.records)
            for ty in e1.enum_types:
                recs[("PTR", rm.ENUM, 1, ty)] = 4500
            for s, missing in e1.nsec:
                recs[("NSEC", s.name.lower(), 1, s.name, tuple(sorted(missing)))] = s.host_ttl
            per_q.append((qu, recs))
        for qu, recs in per_q:
            for i, ttl in recs.items():
                if legacy:
                    uni.add(i)
                    if p["probe"]:
                        mc_now.add(i)  # probe queries are answered at once, whatever was multicast a moment ago
                    else:
                        mc_any.add(i)
                elif qu:
                    rc = recency(i, ttl)
                    if p["probe"]:
                        uni.add(i)
                        if rc == "old":
                            mc_now.add(i)
                        elif rc == "edge":
                            mc_now_maybe.add(i)
                    elif rc == "recent":
                        uni.add(i)
                        no_mc.add(i)
                    elif rc == "old":
                        mc_now.add(i)
                    else:
                        uni_maybe.add(i)
                        mc_now_maybe.add(i)
                else:
                    if p["probe"]:
                        mc_now.add(i)
                    else:
                        mc_any.add(i)
        no_mc -= mc_now | mc_any | mc_now_maybe

        def nsec_key(i: tuple) -> tuple:
            return ("NSEC", i[4]) if i[0] == "NSEC" else i

        def ans(d: Any) -> Set[tuple]:
            return {nsec_key(ident(r)) for r in d.msg.answers}

        unicasts = [d for d in dec if not d.multicast]
        mcasts = [d for d in dec if d.multicast]
        want_uni = {nsec_key(i) for i in uni}
        maybe_uni = {nsec_key(i) for i in uni_maybe}
        if want_uni or (maybe_uni and unicasts):
            if len(unicasts) != 1:
                problems.append(f"unicast: {len(unicasts)} unicast datagrams, expected exactly one to {src[:2]}")
            else:
                d = unicasts[0]
                if tuple(d.sent.dest) != tuple(src):
                    problems.append(f"unicast: reply sent to {d.sent.dest}, query came from {src}")
                if d.sent.sock is not rx.sock:
                    problems.append(f"unicast: reply left through {d.sent.sock}, query arrived on {rx.sock}")
                if round(d.t_ms - tq, 3) != 0:
                    problems.append(f"unicast: reply sent {d.t_ms - tq} ms after the query")
                got = ans(d)
                if not (want_uni <= got <= want_uni | maybe_uni):
                    problems.append(f"unicast: answers {sorted(got, key=repr)}, expected {sorted(want_uni, key=repr)}"
                                    f" (+ optionally {sorted(maybe_uni, key=repr)})")
                if not d.is_response:
                    problems.append("unicast: reply is not flagged as a response")
                if legacy:
                    if d.msg.id != p["id"]:
                        problems.append(f"legacy: reply id {d.msg.id:#x}, query id {p['id']:#x}")
                    echoed = [(q[1], q[2]) for q in d.msg.questions]
                    asked = [(n, t) for n, t, _ in qs] + ([("_zz._tcp.local.", 12)] if p.get("probe_ka") else [])
                    if echoed != asked:
                        problems.append(f"legacy: questions echoed {echoed}, asked {asked}")
                    if any(r[2] & 0x8000 for r in d.msg.records()):
                        problems.append("legacy: reply carries cache-flush bits")
        elif unicasts:
            problems.append(f"unicast: unexpected unicast datagram(s) {[d.brief() for d in unicasts]}")
        # multicast
        now_mc = [d for d in mcasts if round(d.t_ms - tq, 3) == 0]
        got_now: Set[tuple] = set().union(*[ans(d) for d in now_mc]) if now_mc else set()
        got_any: Set[tuple] = set().union(*[ans(d) for d in mcasts]) if mcasts else set()
        want_now = {nsec_key(i) for i in mc_now}
        if not want_now <= got_now:
            problems.append(f"multicast: {sorted(want_now - got_now, key=repr)} not multicast at once (probe / QU record "
                            f"not multicast within a quarter of its TTL)")
        want_any = {nsec_key(i) for i in mc_any}
        if not want_any <= got_any:
            problems.append(f"multicast: {sorted(want_any - got_any, key=repr)} never multicast within 1.5 s")
        forbidden = {nsec_key(i) for i in no_mc}
        if forbidden & got_any:
            problems.append(f"multicast: {sorted(forbidden & got_any, key=repr)} multicast although the QU question "
                            f"should be answered by unicast alone (multicast {tq - last_mc.get(next(iter(no_mc)), 0):.0f} ms ago)")
        allowed_any = want_now | want_any | {nsec_key(i) for i in mc_now_maybe}
        if p.get("pre_tc_ms"):
            allowed_any |= {nsec_key(i) for i in dict(rm.answer(REG, [("_b._tcp.local.", 12)], []).records)}
        if not got_any <= allowed_any:
            problems.append(f"multicast: unexpected answers {sorted(got_any - allowed_any, key=repr)}")
        n_send = 1 if p["socks"] in ("single", "single6") else 2
        for d in mcasts:
            m = d.msg
            if m.id != 0 or (m.flags & ~0x0200) != 0x8400 or m.questions:
                problems.append(f"format: multicast reply id={m.id} flags={m.flags:#x} questions={len(m.questions)}")
            for r in m.records():
                flush = bool(r[2] & 0x8000)
                if flush != (r[0] != "PTR"):
                    problems.append(f"format: cache-flush bit is {flush} on {r[0]} {r[1]} in a multicast reply")
            fam6 = d.sent.sock.family == socket.AF_INET6
            if (d.sent.dest[0] == MDNS6) != fam6 or d.sent.dest[0] not in (MDNS4, MDNS6) or d.sent.dest[1] != 5353:
                problems.append(f"format: multicast reply to {d.sent.dest} through {d.sent.sock}")
        by_inst: Dict[float, int] = {}
        for d in mcasts:
            by_inst[d.t_ms] = by_inst.get(d.t_ms, 0) + 1
        if any(c % n_send for c in by_inst.values()):
            problems.append(f"format: multicast replies per instant {by_inst} with {n_send} sending socket(s)")
        excs = w.exceptions()
        if excs:
            problems.append(f"exception in the event loop: {excs[0]}")
        obs = digest([(round(d.t_ms - tq, 3), d.sent.dest[:2], d.sent.data) for d in dec])
        if verbose:
            for d in dec:
                print("   ", d.brief())
            print("    uni", sorted(uni, key=repr), "\n    mc_now", sorted(mc_now, key=repr), "\n    mc_any",
                  sorted(mc_any, key=repr), "\n    no_mc", sorted(no_mc, key=repr))
    verdict = None
    if problems:
        verdict = {"what": f"C11 {p}: {problems[0][:600]}", "replay": {"problems": problems[:5]},
                   "signature": {"check": problems[0].split(":")[0]}}
    return verdict, obs, w.loop.handles_run


def run(tier: str, seed: int) -> Tuple[Stats, str, List[str], Dict[str, Any]]:
    stats = Stats()
    pts = grid(tier)
    if run_point(pts[7])[1] != run_point(pts[7])[1]:
        raise HarnessError("C11 scenario is not deterministic")
    explore_product(run_point, pts, stats, f"C11/{tier}")
    stats.states = len(stats.outcomes)
    rule = ("full Cartesian product of the grid; one execution = two services registered, clock advanced to the chosen "
            "age after the last announcement, one scripted query, 1.5 s of trace; distinct outcomes = distinct traces")
    assumptions = [
        "when the age of the last multicast equals a quarter of the TTL exactly, unicast and multicast are both accepted",
        "'the normal multicast' of a legacy or QM query only has to appear within 1.5 s (its timing is C12's subject)",
        "a record may additionally travel in the additional section of any reply; routing is judged on answer sections",
        "NSEC answers are identified by their type list (named after the instance by the library)",
        "dual-socket hosts: multicast queries arrive on the listen socket, legacy unicast queries on the respond socket "
        "of the matching family; IPv6 sources are link-local with the interface scope",
    ]
    return stats, rule, assumptions, {"grid_points": len(pts)}


def replay(data: Dict[str, Any]) -> int:
    p = dict(data["point"])
    v, o1, _ = run_point(p, verbose=True)
    if o1 != run_point(p)[1]:
        print("HARNESS-ERROR: replay is not deterministic")
        return 2
    if v:
        print("VIOLATION reproduced:", v["what"])
        for x in v["replay"]["problems"]:
            print("   ", x)
        return 1
    print("no violation on this tree")
    return 0
