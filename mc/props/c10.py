"""C10 - browser keeps learned services alive: refresh queries, rate limit, liveness (E2 tree, no dedup)."""
from __future__ import annotations

import itertools
import struct
from typing import Any, Dict, List, Optional, Tuple

from .. import wire
from ..explore import Stats, digest, explore_product
from ..models.responder_model import Svc
from ..scen import RandPolicy, decoded_trace, make_info, register
from ..world import HarnessError, World

ID = "C10"
TECHNIQUE = ("exhaustive enumeration of the history tree (all sequences of <= d learn/refresh/re-case/withdraw events "
             "x gap menu x browser delay x forced question type) on a real AsyncServiceBrowser under the virtual loop, "
             "each run until every record has expired; trace oracle: start-up schedule, refresh windows at 75/85/95 % "
             "of the TTL, rate limit, no unexplained query, no expiry without refresh attempt, timer armed")

TA, TB = "_a._tcp.local.", "_b._tcp.local."
X, XU, Y, Z = "x._a._tcp.local.", "X._A._tcp.local.", "y._a._tcp.local.", "z._b._tcp.local."
FLOOR = 1125
OWN = Svc(TA, "own._a._tcp.local.", "own.local.", 80, b"", [bytes([10, 0, 0, 1])], [])
T1, T2 = "_p._sub._a._tcp.local.", "_s._sub._a._tcp.local."  # two subtypes whose pointers lead to the same instances


def scheduler_armed(w: Any, br: Any) -> Optional[bool]:
    """Is a wake-up of the browser's query scheduler pending?  Read from the scheduler's own handle when it has the known
    private field, otherwise from the loop's timer heap (a timer whose callback belongs to the scheduler or the browser);
    None when neither tells (then nothing is claimed)."""
    qs = getattr(br, "query_scheduler", None)
    h = getattr(qs, "_next_run", None) if qs is not None else None
    if h is not None and hasattr(h, "when"):
        return not (h.cancelled() or h.when() * 1000 < w.now_ms - 1)
    owners = [o for o in (qs, br) if o is not None]
    found = False
    for t in w.loop._scheduled:
        cb = getattr(t, "_callback", None)
        owner = getattr(cb, "__self__", None)
        if any(owner is o for o in owners):
            found = True
            if not t.cancelled() and t.when() * 1000 >= w.now_ms - 1:
                return True
    if qs is not None and hasattr(qs, "_next_run"):
        return False  # known layout, handle is None
    return False if found else None


def actions(tier: str) -> List[tuple]:
    ttls = [1, 1200, 4500] if tier == "quick" else [1, 1125, 1200, 4500, 9000]
    acts: List[tuple] = [("ptr", X, t) for t in ttls] + [("ptr", Y, t) for t in ttls]
    acts += [("ptr", XU, 4500), ("ptr", X, 0)]
    if tier != "quick":
        acts += [("ptr", Y, 0), ("ptr", Z, 4500), ("ptr", Z, 1200)]
    return acts


def gaps(tier: str) -> List[int]:
    g = [0, 1000, 20_000, 40_000, 900_000, 843_750 - 1000, 843_750 + 1000, 956_250 + 1000, 1_125_000 - 1000,
         1_125_000 + 11_000, 3_375_000 + 1000, 7_200_000]
    if tier != "quick":
        g += [10_000, 60_000, 956_250 - 1000, 1_068_750 - 1000, 1_068_750 + 1000, 900_000 - 1000, 3_375_000 - 1000,
              3_825_000 + 1000, 4_500_000 + 11_000]
    return sorted(set(g))


def points(tier: str) -> List[Dict[str, Any]]:
    acts, gs = actions(tier), gaps(tier)
    evs = [(g, a) for g in gs for a in acts]
    pts: List[Dict[str, Any]] = []
    delays = [1000, 10_000, 60_000]
    # depth 0/1: every start-up configuration
    for delay in delays:
        for forced in (None, "QU", "QM"):
            for jit in (0.0, 1.0):
                for types in ("a", "ab"):
                    pts.append({"delay": delay, "forced": forced, "jitter": jit, "types": types, "events": []})
                    for e in evs[:: 3 if tier == "quick" else 1]:
                        pts.append({"delay": delay, "forced": forced, "jitter": jit, "types": types, "events": [e]})
    depth = 2 if tier == "quick" else 3
    red_acts = acts if tier == "quick" else [("ptr", X, 1), ("ptr", X, 4500), ("ptr", Y, 1200), ("ptr", Y, 4500), ("ptr", X, 0)]
    red_gaps = gs if tier == "quick" else [0, 20_000, 40_000, 900_000, 843_750 + 1000, 956_250 + 1000, 3_375_000 + 1000]
    for delay in delays:
        for seq in itertools.product([(g, a) for g in gs for a in acts], repeat=2):
            pts.append({"delay": delay, "forced": None, "jitter": 0.0, "types": "a", "events": list(seq)})
        if depth >= 3:
            for seq in itertools.product([(g, a) for g in red_gaps for a in red_acts], repeat=3):
                pts.append({"delay": delay, "forced": None, "jitter": 0.0, "types": "a", "events": list(seq)})
    # a re-announcement with another TTL whose 75 % instant coincides (within a delay) with the armed 75 % / 85 % / 95 %
    # query of the copy it replaces: the armed query is kept - its later steps must follow the new record
    for delay in (1000, 10_000):
        for t1, t2 in ((9000, 4500), (4500, 1200), (9000, 1200), (4500, 2250), (1200, 4500)):
            for step in (0.75, 0.85, 0.95):
                base = (step * t1 - 0.75 * t2) * 1000
                for d in (-1.5, -1.0, -0.999, 0.0, 0.999, 1.0, 1.5):
                    gap = int(base + d * delay)
                    if gap <= 0:
                        continue
                    for second in (X, XU):
                        pts.append({"delay": delay, "forced": None, "jitter": 0.0, "types": "a",
                                    "events": [(0, ("ptr", X, t1)), (gap, ("ptr", second, t2))]})
    # one browser for two subtypes of one type: both pointers of a device lead to the same instance name
    for delay in (1000, 10_000):
        for first in (("ptr", X, 4500), ("ptr", X, 1200)):
            pts.append({"delay": delay, "forced": None, "jitter": 0.0, "types": "subs", "events": [(20_000, first)]})
            for second in ((40_000, ("ptr", Y, 4500)), (40_000, ("ptr1", X, 0)), (900_000, ("ptr1", X, 4500)),
                           (3_375_000 + 1000, ("ptr", X, 4500))):
                pts.append({"delay": delay, "forced": None, "jitter": 0.0, "types": "subs", "events": [(20_000, first), second]})
    # a service that flaps: learned, withdrawn, announced again so that the new 75 % instant lies within a delay of the
    # withdrawn copy's (same TTL a few seconds later, or a shorter TTL much later)
    for delay in (1000, 10_000):
        for g1, g2 in ((1000, 500), (4000, 3000), (4000, 5500), (4000, 9000), (1000, 11_000)):
            pts.append({"delay": delay, "forced": None, "jitter": 0.0, "types": "a",
                        "events": [(100_000, ("ptr", X, 4500)), (g1, ("ptr", X, 0)), (g2, ("ptr", X, 4500))]})
        for d in (-1.5, -0.5, 0.0, 0.5, 1.5):
            g2 = int((0.75 * 4500 - 0.75 * 1125) * 1000 - 4000 + d * delay)
            pts.append({"delay": delay, "forced": None, "jitter": 0.0, "types": "a",
                        "events": [(100_000, ("ptr", X, 4500)), (4000, ("ptr", X, 0)), (g2, ("ptr", X, 1125))]})
    # a chatty service re-announced again and again at intervals no longer than the browser's delay (its armed query is kept
    # and follows it) next to a quiet one learned in between that nobody refreshes
    for delay, every in ((10_000, 8_000), (10_000, 10_000), (60_000, 30_000), (1000, 900)):
        for k in (2, 4, 6):
            for quiet_after in (0, 1, 2):
                evs: List[Any] = [(20_000, ("ptr", X, 4500))]
                for i in range(k):
                    if i == quiet_after:
                        evs.append((every // 2, ("ptr", Y, 4500)))
                        evs.append((every - every // 2, ("ptr", X, 4500)))
                    else:
                        evs.append((every, ("ptr", X, 4500)))
                pts.append({"delay": delay, "forced": None, "jitter": 0.0, "types": "a", "events": evs})
    # a second browser of the same instance (one type only) wakes up in the same instants and asks the shared type first or
    # second: the question history then suppresses that question for the other browser - which must still ask for its other type
    for delay in (1000, 10_000):
        for order in ("first", "second"):
            for ttl in (4500, 1200):
                pts.append({"delay": delay, "forced": None, "jitter": 0.0, "types": "ab", "companion": order,
                            "events": [(20_000, ("ptr", X, ttl)), (0, ("ptr", Z, ttl))]})
                pts.append({"delay": delay, "forced": None, "jitter": 0.0, "types": "ab", "companion": order,
                            "events": [(20_000, ("ptr", X, ttl)), (0, ("ptr", Z, ttl)), (900_000, ("ptr", X, ttl))]})
    # the instance also offers the browsed type (so it takes note of questions it hears), and a neighbour asks for the type half
    # a second before a refresh is due, listing the very pointer that is about to be refreshed as a known answer: nobody will
    # answer it to the neighbour, the browser has to ask for itself
    for delay in (1000, 10_000):
        for ttl in (4500, 1200):
            for before in (500, 998, 1500):
                for step in (0.75, 0.85):
                    pts.append({"delay": delay, "forced": None, "jitter": 0.0, "types": "a", "peer": {"before": before, "step": step},
                                "events": [(20_000, ("ptr", X, ttl))]})
    # a record re-announced with a shorter TTL whose new 75 % instant lies a little BEFORE the query armed for the old copy,
    # while another type's refresh falls due right before that armed query (the minimum spacing pushes it further)
    for delay in (10_000, 60_000):
        for early_by in (0.5, 0.9):
            for other_before in (0.1, 0.5):
                # X learned at 1 s (TTL 4500: armed at 1 s + 3375 s); re-announced with TTL 1200 so that 75 % of the new copy
                # falls early_by x delay before the armed instant; Z (other type) learned other_before x delay before X
                t_re = int(3_375_000 - early_by * delay - 900_000)
                pts.append({"delay": delay, "forced": None, "jitter": 0.0, "types": "ab",
                            "events": [(20_000, ("ptr", Z, 4500)), (int(other_before * delay), ("ptr", X, 4500)),
                                       (t_re, ("ptr", X, 1200))]})
    # late wake-ups: two records learned a few seconds apart, the loop stalled across the first one's refresh instant
    for delay in (10_000, 60_000):
        for second_after in (3_000, 7_000, delay):
            for step in (0.75, 0.85):
                for frac in (0.1, 0.25, 0.6, 0.9):
                    pts.append({"delay": delay, "forced": None, "jitter": 0.0, "types": "a",
                                "stall": {"step": step, "ms": int(frac * delay)},
                                "events": [(20_000, ("ptr", X, 4500)), (second_after, ("ptr", Y, 4500))]})
    # pointers already cached when the browser is created (younger / older than half their TTL, shortly before it starts)
    for delay in (1000, 10_000):
        for pre in ([(30_000, ("ptr", X, 4500))], [(30_000, ("ptr", X, 1200))], [(1_000, ("ptr", X, 4500))],
                    [(2_500_000, ("ptr", X, 4500))], [(600_000, ("ptr", X, 4500)), (30_000, ("ptr", Y, 4500))],
                    [(30_000, ("ptr", X, 4500)), (30_000, ("ptr", Z, 4500))]):
            for types in ("a", "ab"):
                pts.append({"delay": delay, "forced": None, "jitter": 0.0, "types": types, "events": [], "pre": pre})
                for e in ((20_000, ("ptr", Y, 4500)), (3_375_000 + 1000, ("ptr", X, 4500)), (40_000, ("ptr", X, 0))):
                    pts.append({"delay": delay, "forced": None, "jitter": 0.0, "types": types, "events": [e], "pre": pre})
    # ... cached so long before the browser starts that the refresh falls due while the start-up queries are still being sent, or
    # less than a delay after the last of them (the start-up series ends 14 s after the first query)
    for delay in (10_000, 60_000):
        for due_after_start in (-20_000, 2_000, 13_000, 15_000, 18_000, 30_000, 70_000):
            for forced in (None, "QU"):
                age = 3_375_000 - due_after_start
                pts.append({"delay": delay, "forced": forced, "jitter": 0.0, "types": "a", "events": [],
                            "pre": [(age, ("ptr", X, 4500))]})
    return pts


class Lst:
    def __init__(self, w: World) -> None:
        self.w = w
        self.events: List[Tuple[float, str, str]] = []

    def add_service(self, zc: Any, t: str, n: str) -> None:
        self.events.append((self.w.now_ms, "add", n.lower()))

    def remove_service(self, zc: Any, t: str, n: str) -> None:
        self.events.append((self.w.now_ms, "rm", n.lower()))

    def update_service(self, zc: Any, t: str, n: str) -> None:
        pass


def run_point(p: Dict[str, Any], verbose: bool = False) -> Tuple[Optional[Dict[str, Any]], str, int]:
    from zeroconf import DNSQuestionType
    from zeroconf.asyncio import AsyncServiceBrowser

    problems: List[str] = []
    delay = p["delay"]
    with World(rand=RandPolicy.const(p["jitter"])) as w:
        host = w.new_zeroconf()
        zc = host.zc
        proto = host.protocol_for()
        lst = Lst(w)
        types = {"a": [TA], "ab": [TA, TB], "subs": [T1, T2]}[p["types"]]
        forced = {None: None, "QU": DNSQuestionType.QU, "QM": DNSQuestionType.QM}[p["forced"]]
        # record intervals: alias -> list of [type, created, ttl, end(reason)]
        intervals: List[Dict[str, Any]] = []
        live: Dict[str, Dict[str, Any]] = {}
        n = 0
        # pointers the instance learned *before* the browser existed (another browser's traffic, a browser that was
        # cancelled and created again): they are replayed to the new browser from the cache and need refreshing too
        pre = sorted([tuple(e) for e in p.get("pre", [])], key=lambda e: -e[0])
        own_log: List[Tuple[float, int]] = []
        if p.get("peer"):
            from zeroconf import RecordUpdateListener

            class OwnSeen(RecordUpdateListener):
                def async_update_records(self, zc_: Any, now: float, records: list) -> None:
                    for u in records:
                        if u.new.type == 12 and u.new.name.lower() == TA and u.new.alias.lower() == OWN.name:
                            own_log.append((now, u.new.ttl))

                def async_update_records_complete(self) -> None:
                    pass

            zc.async_add_listener(OwnSeen(), None)
            register(w, host, make_info(OWN))
            w.advance(2000)
        base = w.now_ms
        t_start = base + (pre[0][0] if pre else 0)
        br = None
        script = [(("pre", before), act) for before, act in pre] + [("start", (None, None, None))] + [tuple(e) for e in p["events"]]
        for gap, (kind, inst, ttl) in script:
            if gap == "start":
                w.advance_to_ms(t_start)
                if p.get("companion") == "first":
                    AsyncServiceBrowser(zc, [TA], listener=Lst(w), delay=delay, question_type=forced)
                br = AsyncServiceBrowser(zc, types, listener=lst, delay=delay, question_type=forced)
                if p.get("companion") == "second":
                    AsyncServiceBrowser(zc, [TA], listener=Lst(w), delay=delay, question_type=forced)
                w.settle()
                continue
            if isinstance(gap, tuple):
                w.advance_to_ms(t_start - gap[1])
            else:
                w.advance(gap)
            n += 1
            now = w.now_ms
            # with two subtypes browsed, one datagram carries a pointer from each of them to the same instance; 'ptr1' is
            # a pointer (or goodbye) from the first subtype only
            tnames = ([T1, T2] if kind == "ptr" else [T1]) if p["types"] == "subs" else [TB if inst == Z else TA]
            data = bytearray(wire.response([("PTR", tn, 1, ttl, inst) for tn in tnames]))
            struct.pack_into(">H", data, 0, n)
            proto.datagram_received(bytes(data), ("10.0.0.77", 5353))
            w.settle()
            for tname in tnames:
                key = (tname, inst.lower())
                if tname not in types:
                    continue
                cur = live.get(key)
                if ttl == 0:
                    if cur is not None:
                        cur["end"], cur["why"] = now, "goodbye"
                        live.pop(key)
                else:
                    eff = max(ttl, FLOOR)
                    if cur is not None:
                        cur["end"], cur["why"] = now, "refreshed"
                    iv = {"type": tname, "alias": inst.lower(), "created": now, "ttl": eff, "end": None, "why": None}
                    intervals.append(iv)
                    live[key] = iv
        if p.get("peer") and intervals:
            iv0 = intervals[0]
            t_due = iv0["created"] + p["peer"]["step"] * iv0["ttl"] * 1000
            ka = [("PTR", TA, 1, iv0["ttl"], iv0["alias"]), ("PTR", TA, 1, 4500, OWN.name)]
            w.loop.call_at((t_due - p["peer"]["before"]) / 1000, w.net.inject, host,
                           wire.query([("Q", TA, 12, 1)], answers=ka, id_=0x7E), ("10.0.0.60", 5353))
        if p.get("stall") and intervals:
            # the event loop is busy elsewhere (a blocking handler, a suspended process) across a refresh instant and serves the
            # wake-up `ms` late; another record's refresh falls due shortly after - still a full delay after the late query
            iv0 = intervals[0]
            t_due = iv0["created"] + p["stall"]["step"] * iv0["ttl"] * 1000
            if t_due - 1 > w.now_ms:
                w.advance_to_ms(t_due - 1)
                w.loop.now_us += int(p["stall"]["ms"] * 1000)
        # run until everything has expired and been purged
        horizon = max([iv["created"] + iv["ttl"] * 1000 for iv in intervals] + [w.now_ms]) + 25_000 + delay
        horizon = max(horizon, t_start + 20_000 + 2 * delay)
        w.advance_to_ms(horizon)
        for iv in intervals:
            if iv["end"] is None:
                iv["end"], iv["why"] = iv["created"] + iv["ttl"] * 1000, "expired"
        # the instance's own service (scenarios with a neighbour): its pointer is learned from the looped-back announcements and
        # refreshed whenever the instance answers its own browser; those intervals come from what the record manager reported
        prev_own: Optional[Dict[str, Any]] = None
        for t_seen, ttl_seen in own_log:
            if prev_own is not None:
                prev_own["end"], prev_own["why"] = t_seen, "refreshed"
            prev_own = {"type": TA, "alias": OWN.name, "created": t_seen, "ttl": max(ttl_seen, FLOOR), "end": None, "why": None}
            intervals.append(prev_own)
        if prev_own is not None:
            prev_own["end"], prev_own["why"] = min(prev_own["created"] + prev_own["ttl"] * 1000, horizon), "open"
        # ---- the query trace of the browser
        queries: List[Tuple[float, Any]] = []
        for d in decoded_trace(w, host.name):
            if not d.is_response and d.msg.questions and not d.msg.authorities and d.t_ms >= t_start:
                queries.append((d.t_ms, d))  # (probe queries of the scenarios that register a service are not the browser's)
        instants: List[float] = sorted({t for t, _ in queries})
        # (a) start-up schedule
        first_lo, first_hi = t_start + 20, t_start + 120
        want_offsets = [0, 1000, 5000, 14000]
        if len(instants) < 4:
            problems.append(f"startup: only {len(instants)} query instants, expected the four start-up queries")
        else:
            t1 = instants[0]
            if not first_lo <= t1 <= first_hi:
                problems.append(f"startup: first query {t1 - t_start} ms after start, expected 20..120 ms")
            got = [round(t - t1, 3) for t in instants[:4]]
            if got != want_offsets:
                problems.append(f"startup: start-up queries at +{got} after the first, expected +{want_offsets}")
            for k, t in enumerate(instants[:4]):
                for tt, d in queries:
                    if tt != t:
                        continue
                    for q in d.msg.questions:
                        qu = bool(q[3] & 0x8000)
                        want_qu = (p["forced"] == "QU") if p["forced"] else (k == 0)
                        if qu != want_qu:
                            problems.append(f"startup: start-up query {k + 1} has QU={qu}, expected {want_qu}")
            asked = {q[1].lower() for tt, d in queries if tt == instants[0] for q in d.msg.questions}
            if asked != {t.lower() for t in types}:
                problems.append(f"startup: first query asks {sorted(asked)}, browsing {types}")
        later = instants[4:] if len(instants) >= 4 else []
        # (b) rate limit after start-up
        prev = instants[3] if len(instants) >= 4 else None
        for t in later:
            if prev is not None and t - prev < delay - 0.5:
                problems.append(f"rate: queries at {prev - t_start:.0f} and {t - t_start:.0f} ms after start are "
                                f"{t - prev:.0f} ms apart, configured delay {delay} ms")
                break
            prev = t
        startup_end = (instants[3] if len(instants) >= 4 else t_start + 14_120)
        # (c) refresh windows
        def window(iv: Dict[str, Any], k: int) -> Tuple[float, float]:
            r = iv["created"] + (0.75 + 0.1 * k) * iv["ttl"] * 1000
            return r, r + (k + 1) * delay

        def asked_between(tname: str, lo: float, hi: float) -> bool:
            return any(lo - 1 <= t <= hi + 1 and any(q[1].lower() == tname.lower() for q in d.msg.questions)
                       for t, d in queries)

        for iv in intervals:
            expiry = iv["created"] + iv["ttl"] * 1000
            for k in range(3):
                lo, hi = window(iv, k)
                if lo <= startup_end + delay:
                    if iv["created"] < t_start:
                        # cached before the browser existed and (nearly) due when it starts: the start-up queries stand in for
                        # the 75 % query at an instant of their own, and the library counts its 10 % steps from the query it
                        # really sent - "further 10 percent steps" has no fixed instants here; liveness and the rate limit
                        # below still apply
                        break
                    continue  # start-up queries already ask for the type
                if hi + delay > min(iv["end"], expiry) or hi + delay > horizon:
                    continue  # refreshed/withdrawn before the window closed, or the window does not precede expiry
                if not asked_between(iv["type"], lo - delay, hi):
                    problems.append(
                        f"refresh: {iv['alias']} (ttl {iv['ttl']} s, learned {iv['created'] - t_start:.0f} ms after start) "
                        f"got no query in [{lo - t_start:.0f}, {hi - t_start:.0f}] ms ({75 + 10 * k} % of its TTL)")
                    break
            if iv["why"] == "expired" and iv["created"] + 0.75 * iv["ttl"] * 1000 > startup_end + delay:
                if not asked_between(iv["type"], iv["created"] + 0.75 * iv["ttl"] * 1000 - delay, expiry):
                    problems.append(f"liveness: {iv['alias']} expired without any refresh query having been sent")
        # (c2) an *isolated* record (no other record of this browser alive while it is being refreshed) has an exact
        # schedule: the first refresh query within one delay of 75 %, every further one a tenth of the TTL after the
        # previous one actually went out, as long as that instant precedes the expiry
        for iv in intervals:
            if iv["why"] != "expired":
                continue
            expiry = iv["created"] + iv["ttl"] * 1000
            r75 = iv["created"] + 0.75 * iv["ttl"] * 1000
            if r75 - delay <= startup_end + delay:
                continue
            lo_iso, hi_iso = r75 - 2 * delay, expiry + delay
            if any(o is not iv and o["created"] <= hi_iso and o["end"] >= lo_iso for o in intervals):
                continue
            mine = [t for t, d in queries if r75 - delay - 1 <= t and any(q[1].lower() == iv["type"].lower() for q in d.msg.questions)]
            if not mine:
                continue  # reported by (c)
            prev_q = mine[0]
            for k in (1, 2):
                expect = prev_q + 0.1 * iv["ttl"] * 1000
                if expect >= expiry - 2:
                    break
                hit = [t for t in mine if abs(t - expect) <= 2]
                if not hit:
                    problems.append(
                        f"refresh: {iv['alias']} (ttl {iv['ttl']} s, the only live record) was queried at "
                        f"{prev_q - t_start:.0f} ms; the next refresh query was due at {expect - t_start:.0f} ms "
                        f"({75 + 10 * k} %, expiry at {expiry - t_start:.0f} ms) and was not sent; queries: "
                        f"{[round(t - t_start) for t in mine]}")
                    break
                prev_q = hit[0]
        # (d) every later query is explained by a live record's refresh schedule
        for t in later:
            ok = False
            for iv in intervals:
                if not (iv["created"] <= t <= iv["end"] + 1):
                    continue
                if iv["created"] < t_start and window(iv, 0)[0] <= startup_end + delay:
                    ok = True  # (see (c): a record that was due when the browser started has no fixed step instants)
                for k in range(3):
                    lo, hi = window(iv, k)
                    if lo - delay - 1 <= t <= hi + delay + 1:
                        ok = True
            if not ok:
                problems.append(f"spurious: query {t - t_start:.0f} ms after start matches no live record's refresh "
                                f"schedule (old schedule of a refreshed or withdrawn record?)")
                break
        # (e) the scheduler is still armed
        armed = scheduler_armed(w, br)
        if armed is False:
            problems.append("armed: the scheduler has no timer armed although the browser is active")
        # removed-by-expiry consistency with the intervals
        excs = w.exceptions()
        if excs:
            problems.append(f"exception in the event loop: {excs[0]}")
        obs = digest(([round(t - t_start, 3) for t in instants], [(round(t - t_start), k, n_) for t, k, n_ in lst.events]))
        if verbose:
            print("   queries at", [round(t - t_start) for t in instants])
            print("   callbacks", [(round(t - t_start), k, n_) for t, k, n_ in lst.events])
            print("   intervals", [(iv["alias"], round(iv["created"] - t_start), iv["ttl"], iv["why"]) for iv in intervals])
    verdict = None
    if problems:
        verdict = {"what": f"C10 {p}: {problems[0]}", "replay": {"problems": problems[:5]},
                   "signature": {"check": problems[0].split(":")[0]}}
    return verdict, obs, w.loop.handles_run


def run(tier: str, seed: int) -> Tuple[Stats, str, List[str], Dict[str, Any]]:
    stats = Stats()
    pts = points(tier)
    o1 = run_point(pts[len(pts) // 3])[1]
    if o1 != run_point(pts[len(pts) // 3])[1]:
        raise HarnessError("C10 scenario is not deterministic")
    explore_product(run_point, pts, stats, f"C10/{tier}")
    stats.states = len(stats.outcomes)
    stats.notes["actions"] = [list(a) for a in actions(tier)]
    stats.notes["gaps_ms"] = gaps(tier)
    rule = ("complete history tree: start-up configurations x every single event, then every sequence of 2 (thorough: "
            "also 3 over a reduced alphabet) (gap, pointer datagram) events x browser delay in {1,10,60 s}; each run "
            "continues until all records expired and were purged; distinct outcomes = distinct (query instants, "
            "callbacks) traces")
    assumptions = [
        "refresh window k (75/85/95 %) is [r_k - delay, r_k + (k+1) x delay]: 'about 75 percent' tolerates one delay "
        "early (the scheduler keeps an armed query when a refresh moves the refresh time by less than one delay), each "
        "step may be one delay late and lateness accumulates because the next step is scheduled from the actual send time",
        "a window is only demanded when it closes at least one delay before the record expires / is refreshed / withdrawn",
        "a later query counts as explained when it lies within one delay of a live record's window (the scheduler keeps "
        "an existing timer when the new refresh time is within one delay)",
        "pointer TTLs below the 1125 s floor are raised to it (C06)",
    ]
    return stats, rule, assumptions, {"points": len(pts)}


def replay(data: Dict[str, Any]) -> int:
    p = dict(data["point"])
    p["events"] = [(e[0], tuple(e[1])) for e in p["events"]]
    v, o1, _ = run_point(p, verbose=True)
    if o1 != run_point(p)[1]:
        print("HARNESS-ERROR: replay is not deterministic")
        return 2
    if v:
        print("VIOLATION reproduced:", v["what"])
        for x in v["replay"]["problems"]:
            print("   ", x)
        return 1
    print("no violation on this tree")
    return 0
