"""C12 - reply timing: jitter, aggregation, one-second protection, truncated queries (E1)."""
from __future__ import annotations

import itertools
from typing import Any, Dict, List, Optional, Sequence, Set, Tuple

from .. import wire
from ..explore import Stats, digest, explore_product
from ..models import responder_model as rm
from ..models.cache_model import ident
from ..models.responder_model import Svc
from ..scen import Decoded, Peer, RandPolicy, make_info, register
from ..world import HarnessError, World

ID = "C12"
TECHNIQUE = ("stateless exploration of full product grids on a real instance: single queries x all 101 jitter values x "
             "sighting ages around one second; 2-3 query arrival schedules on a gap grid around every timing constant x "
             "jitter per draw; truncated-query trains (1-4 packets, one/two sources, continuation gaps around 400/500 ms "
             "and at the timer instant in both orders); per-record timing-envelope oracle on the decoded trace")

TA, TB = "_a._tcp.local.", "_b._tcp.local."
S1 = Svc(TA, "s1._a._tcp.local.", "h1.local.", 80, b"\x03a=b", [bytes([10, 0, 0, 1])], [])
S2 = Svc(TA, "s2._a._tcp.local.", "h1.local.", 81, b"", [bytes([10, 0, 0, 1])], [])
S3 = Svc(TB, "s3._b._tcp.local.", "h3.local.", 82, b"", [bytes([10, 0, 0, 3])], [bytes.fromhex("fe800000000000000000000000000003")])
REG = {"S1": S1, "S2": S2, "S3": S3}

KINDS: Dict[str, Tuple[List[Tuple[str, int]], bool]] = {
    "ptr": ([(TA, 12)], False), "srv": ([(S1.name, 33)], False), "a": ([(S1.server, 1)], False),
    "aaaa": ([(S1.server, 28)], False), "ptr+txt": ([(TA, 12), (S1.name, 16)], False), "ptrB": ([(TB, 12)], False),
    "txt": ([(S1.name, 16)], False), "srv+a": ([(S1.name, 33), (S1.server, 1)], False), "probe": ([(TA, 12)], True),
    "any": ([(S1.name, 255)], False),
    # the IPv6 address of a host that has one (heard on an IPv6 socket it is cached with the interface's scope id)
    "aaaaB": ([(S3.server, 28)], False), "aaaaB+ptrB": ([(S3.server, 28), (TB, 12)], False),
    # several questions of which this host can answer only one (an immediate type): still not a single-question query
    "srv+ghost": ([(S1.name, 33), ("ghost._a._tcp.local.", 33)], False),
    "ghost+a": ([("ghost.local.", 1), (S1.server, 1)], False),
    "aaaa+ptrZ": ([(S1.server, 28), ("_zz._tcp.local.", 12)], False),
}
IMMEDIATE_TYPES = {33, 1, 28, 47}
GAPS_FULL = [0, 1, 19, 20, 21, 119, 120, 121, 200, 499, 500, 501, 999, 1000, 1001, 1119, 1120, 1200, 1201]
GAPS_QUICK = [0, 1, 20, 21, 120, 121, 499, 500, 501, 999, 1000, 1001, 1120, 1201]


def expected_records(questions: Sequence[Tuple[str, int]], known: Sequence[tuple] = ()) -> Dict[tuple, int]:
    e = rm.answer(REG, questions, known)
    recs = dict(e.records)
    for s, missing in e.nsec:
        recs[("NSEC", s.name.lower(), 1, s.name, tuple(sorted(missing)))] = s.host_ttl
    return recs


def key(i: tuple) -> tuple:
    return ("NSEC", i[1], i[4]) if i[0] == "NSEC" else i


class Query:
    def __init__(self, t: float, questions: List[Tuple[str, int]], probe: bool, src: str = "10.0.0.99") -> None:
        self.t, self.questions, self.probe, self.src = t, questions, probe, src


V6 = {"on": False}  # IPv6 variant of a scenario: the host has one IPv6 socket, sources are link-local 4-tuples


def src_tuple(ip: str) -> tuple:
    if V6["on"]:
        return ("fe80::" + ip.rsplit(".", 1)[-1], 5353, 0, 3)
    return (ip, 5353)


def drive(w: World, host: Any, script: List[Tuple[float, bytes, str]], horizon_ms: float) -> None:
    """script: (absolute ms, datagram, source ip); injected in time order through the host's listener."""
    for t, data, src in sorted(script, key=lambda x: x[0]):
        w.loop.call_at(t / 1000, w.net.inject, host, data, src_tuple(src))
    w.advance_to_ms(horizon_ms)


def setup(w: World, reference_sighting: bool = True) -> Tuple[Any, float]:
    host = w.new_zeroconf(mode="single6" if V6["on"] else "single")
    # what the host *processed* is logged from the very first datagram on (the comparison with what reached its socket is
    # only meaningful if both logs cover the same time)
    host.seen_proc = Seen(host.zc)
    for s in REG.values():
        register(w, host, make_info(s, None))
    w.advance(1500 if reference_sighting else 1)
    if reference_sighting:
        # a cooperating responder multicasts every record: one well-defined sighting for all of them
        from ..scen import svc_records
        recs: List[tuple] = []
        for s in REG.values():
            for r in svc_records(s):
                if r not in recs:
                    recs.append(r)
        w.net.inject(host, wire.response(recs), src_tuple("10.0.0.50"))
        w.settle()
    return host, w.now_ms


class Seen:
    """What the host processed (RecordUpdateListener view) - used to recognise sightings hidden by the duplicate guard."""

    def __init__(self, zc: Any) -> None:
        from zeroconf import RecordUpdateListener

        outer = self
        self.log: Dict[tuple, List[float]] = {}

        class L(RecordUpdateListener):
            def async_update_records(self, zc_: Any, now: float, records: list) -> None:
                from ..libconv import from_lib
                for u in records:
                    if u.new.ttl > 0:
                        outer.log.setdefault(key(ident(from_lib(u.new))), []).append(now)

            def async_update_records_complete(self) -> None:
                pass

        self.listener = L()
        zc.async_add_listener(self.listener, None)


def wire_sightings(w: World, host: Any) -> Dict[tuple, List[float]]:
    """Every multicast response that reached the host's socket (its own looped back after 0.1 ms, others as injected)."""
    out: Dict[tuple, List[float]] = {}
    for t, hname, data, src in w.net.arrivals:
        if hname != host.name:
            continue
        try:
            m = wire.decode(data)
        except wire.Reject:
            continue
        if m.is_response:
            for r in m.records():
                if r[0] != "RAW" and r[3] > 0:
                    out.setdefault(key(ident(r)), []).append(t)
    return out


def sightings(trace: List[Decoded]) -> Dict[tuple, List[float]]:
    out: Dict[tuple, List[float]] = {}
    for d in trace:
        if d.multicast and d.is_response:
            for r in d.msg.records():
                if r[0] != "RAW" and r[3] > 0:
                    out.setdefault(key(ident(r)), []).append(d.t_ms + 0.1)
    return out


def judge(problems: List[str], host_name: str, w: World, queries: List[Query], t_begin: float,
          draws_floor: Optional[Dict[int, float]], seen: Dict[tuple, List[float]]) -> None:
    """The per-record envelope oracle for ordinary (non-TC) queries."""
    trace = [Decoded(s) for s in w.net.trace if s.host == host_name]
    answers: List[Tuple[float, Set[tuple], Decoded]] = []
    for d in trace:
        if any(r[0] == "SRV" and str(r[7]).lower() == "h9.local." for r in d.msg.records()):
            continue  # the unsolicited announcements of an update (scenarios with 'update_after'): not replies
        if d.multicast and d.is_response and d.t_ms >= t_begin:
            ids = [key(ident(r)) for r in d.msg.records() if r[0] != "RAW"]
            if len(ids) != len(set(ids)):
                problems.append(f"batch: datagram at {d.t_ms - t_begin:.1f} repeats a record: {d.brief()}")
            answers.append((d.t_ms, {key(ident(r)) for r in d.msg.answers}, d))
    explained: Set[Tuple[float, tuple]] = set()
    for qi, q in enumerate(queries):
        recs = expected_records(q.questions)
        immediate = len(q.questions) == 1 and q.questions[0][1] in IMMEDIATE_TYPES
        for i in recs:
            k = key(i)
            prior = [s for s in seen.get(k, []) if s < q.t]
            s = max(prior) if prior else None
            if q.probe:
                lo = hi = q.t
                why = "probe: at once"
            elif s is not None and q.t - s < 1000:
                lo, hi = s + 1000, q.t + 1200
                why = f"seen multicast {q.t - s:.1f} ms before the query: not before {s + 1000 - q.t:.1f}, within 1200"
            elif immediate:
                lo = hi = q.t
                why = "single SRV/A/AAAA/NSEC question: at once"
            else:
                floor = 20.0 if draws_floor is None else draws_floor.get(qi, 20.0)
                lo, hi = q.t + floor, q.t + 500
                why = f"ordinary: {floor:.0f}..500 ms after the query"
            hits = [t for t, ans, _ in answers if k in ans and lo - 0.01 <= t <= hi + 0.01]
            # an answer already due for another query may serve this one earlier than its own 20-120 ms delay
            # ("aggregated with other pending answers and never duplicated"); such a send must be explained by the
            # other query's envelope, which the 'unexplained' pass below verifies
            early = [t for t, ans, _ in answers if k in ans and q.t - 0.01 <= t < lo] if not (q.probe or immediate) else []
            if not hits and not early:
                when = [round(t - q.t, 1) for t, ans, _ in answers if k in ans]
                problems.append(f"timing: answer {k} to query {qi} ({q.questions}, arrived +{q.t - t_begin:.0f}) expected "
                                f"in [{lo - q.t:.1f}, {hi - q.t:.1f}] ms after arrival ({why}); multicast at {when}")
            for t in hits:
                explained.add((t, k))
    for t, ans, d in answers:
        for k in ans:
            if (t, k) not in explained:
                problems.append(f"unexplained: {k} multicast {t - t_begin:.1f} ms into the scenario fits no query's window "
                                f"(too early, too late or duplicated): {d.brief()}")


# --------------------------------------------------------------------------------------------------
# families
# --------------------------------------------------------------------------------------------------


def decoded_trace_of(w: World, hname: str) -> List[Decoded]:
    return [Decoded(s) for s in w.net.trace if s.host == hname]


def points(tier: str) -> List[Dict[str, Any]]:
    pts: List[Dict[str, Any]] = []
    # F1: one query, every jitter value, sighting ages around one second
    kinds1 = list(KINDS) if tier != "quick" else ["ptr", "srv", "ptr+txt", "a", "probe", "any", "srv+ghost", "ghost+a", "aaaa+ptrZ", "aaaaB", "aaaaB+ptrB"]
    for kind in kinds1:
        for age in (999, 1000, 1001, 5000):
            for j in (range(20, 121) if (tier != "quick" or age in (999, 5000)) else (20, 70, 120)):
                pts.append({"fam": "single", "kind": kind, "age": age, "draw": j})
    # a neighbour multicast *sibling* records (same name, type and class, other rdata: another instance of the type, another
    # address of the host name, another target) a moment before the query: that is no sighting of the host's own records
    for kind in kinds1:
        for j in (20, 120):
            for sib in (200, 900):
                pts.append({"fam": "single", "kind": kind, "age": 5000, "draw": j, "sibling_ms": sib})
    for kind in ("ptrB",):
        for age in (700, 774, 776, 999, 1001, 1224, 1226, 3000):
            for j in (20, 120):
                pts.append({"fam": "after-announce", "kind": kind, "age": age, "draw": j})
    # F2: two (three) queries
    gaps = GAPS_FULL if tier != "quick" else GAPS_QUICK
    kinds2 = ["ptr", "srv", "ptr+txt", "ptrB", "a", "probe", "srv+ghost"] if tier == "quick" else list(KINDS)
    jit = list(itertools.product((0.0, 0.5, 1.0), repeat=3))
    for k1, k2 in itertools.product(kinds2, repeat=2):
        for g in gaps:
            for age in ((5000,) if tier == "quick" else (5000, 900)):
                for js in (jit if tier != "quick" else jit[::2]):
                    pts.append({"fam": "multi", "kinds": [k1, k2], "gaps": [g], "age": age, "jitter": list(js)})
    kinds3 = ["ptr", "srv", "ptr+txt", "ptrB"]
    gaps3 = [0, 21, 121, 499, 501, 1000] if tier == "quick" else [0, 1, 21, 120, 121, 499, 500, 501, 999, 1001, 1201]
    for ks in itertools.product(kinds3, repeat=3):
        for gs in itertools.product(gaps3, repeat=2):
            for js in (((0.0, 1.0, 0.0), (1.0, 0.0, 0.5)) if tier == "quick" else jit[::4]):
                pts.append({"fam": "multi", "kinds": list(ks), "gaps": list(gs), "age": 5000, "jitter": list(js)})
    # a service sharing the asked host name is moved away by an update while the answer is waiting (aggregation delay, or the
    # one-second protection)
    for kind in ("srv+a", "ptr+txt", "ptr"):
        for age in (5000, 500):
            for upd in (5, 15, 130):
                for js in ((0.0,), (1.0,)):
                    pts.append({"fam": "multi", "kinds": [kind], "gaps": [], "age": age, "jitter": list(js), "update_after": upd})
    for kind in ("aaaaB+ptrB", "ptrB"):
        for age in (5000, 500):
            for upd in (5, 15, 130):
                pts.append({"fam": "multi", "kinds": [kind], "gaps": [], "age": age, "jitter": [1.0], "update_after": upd, "move": "sole"})
    # the same query datagram (id 0, as every real querier sends it) repeated
    for kind in ("ptr", "ptr+txt", "srv"):
        for gs in [(g,) for g in (1, 150, 500, 700, 999, 1000, 1001, 1500)] + \
                  [(700, 700), (999, 999), (500, 600), (999, 1), (400, 400), (1000, 500),
                   # four in a row: the third is discarded (less than a second after the second was handled), the fourth comes
                   # more than a second after the last one that WAS handled and before the second's held answer leaves
                   (700, 700, 310), (700, 700, 250), (999, 999, 5), (600, 900, 150)]:
            for js in ((0.0, 0.0, 0.0), (1.0, 1.0, 1.0)):
                pts.append({"fam": "multi", "kinds": [kind] * (len(gs) + 1), "gaps": list(gs), "age": 5000, "jitter": list(js),
                            "same_bytes": True})
    # five queries: the same answer asked again while its first batch is still being held, so that groups emptied by the
    # send (an answer is never duplicated within a batch) sit at the head of the queue when another question arrives
    for g1, g2, g4 in itertools.product((0, 1), (390, 450, 499), (400, 450, 499, 520)):
        for js in itertools.product((0.0, 1.0), repeat=5):
            for last in ("ptrB", "ptr+txt"):
                pts.append({"fam": "multi", "kinds": ["ptr", "ptr", "ptr", "ptr", last], "gaps": [g1, g2, 0, g4], "age": 5000,
                            "jitter": list(js)})
    # F3: truncated trains
    tgaps = [1, 100, 399, 400, 401, 450, 499, 500, 501] if tier != "quick" else [1, 399, 400, 401, 500, 501]
    for n in (1, 2, 3, 4) if tier != "quick" else (1, 2, 3):
        for gs in itertools.product(tgaps, repeat=n - 1):
            for term in (False, True):
                for content in ("same-q/ka-split", "same-q/no-ka", "diff-q"):
                    for tj in (0.0, 0.5, 1.0):
                        for order in ("timer-first", "packet-first"):
                            if order == "packet-first" and not any(g in (400, 450, 500) for g in gs):
                                continue
                            pts.append({"fam": "tc", "n": n, "gaps": list(gs), "terminated": term, "content": content,
                                        "tc_jitter": tj, "order": order, "sources": 1})
    for g in tgaps:
        for tj in (0.0, 1.0):
            for n in (2, 3):
                pts.append({"fam": "tc", "n": n, "gaps": [g] * (n - 1), "terminated": True, "content": "probe-last", "tc_jitter": tj,
                            "order": "timer-first", "sources": 1})
    for g in tgaps:
        for tj in (0.0, 1.0):
            pts.append({"fam": "tc", "n": 2, "gaps": [g], "terminated": False, "content": "same-q/no-ka", "tc_jitter": tj,
                        "order": "timer-first", "sources": 2})
    # a cooperating responder multicasts the asked records while the truncated query is being held: the answer owed to
    # the train then falls under the one-second protection counted from that sighting
    for sight in (50, 250, 330, 399):
        for tj in (0.0, 0.5, 1.0):
            for content in ("same-q/no-ka", "same-q/ka-split"):
                pts.append({"fam": "tc", "n": 1, "gaps": [], "terminated": False, "content": content, "tc_jitter": tj,
                            "order": "timer-first", "sources": 1, "sight_ms": sight})
    for sight in (250, 330, 399):
        for tj in (0.0, 1.0):
            for plain in (50, 200):
                pts.append({"fam": "tc", "n": 1, "gaps": [], "terminated": False, "content": "same-q/no-ka", "tc_jitter": tj,
                            "order": "timer-first", "sources": 1, "sight_ms": sight, "plain_ms": plain})
    # the same scenarios on an IPv6-only host (every 7th point; sources are 4-tuples there)
    pts += [dict(p, v6=True) for p in pts[::7]]
    return pts


def run_point(p: Dict[str, Any], verbose: bool = False) -> Tuple[Optional[Dict[str, Any]], str, int]:
    V6["on"] = bool(p.get("v6"))
    try:
        return _run_point(p, verbose)
    finally:
        V6["on"] = False


def _run_point(p: Dict[str, Any], verbose: bool = False) -> Tuple[Optional[Dict[str, Any]], str, int]:
    problems: List[str] = []
    fam = p["fam"]
    if fam in ("single", "after-announce"):
        rand = lambda a, b: p["draw"] if (a, b) == (20, 120) else a  # noqa: E731
    elif fam == "multi":
        rand = RandPolicy.seq(p["jitter"], 0.0)
    else:
        tj = p["tc_jitter"]
        rand = lambda a, b: a + int(round((b - a) * tj)) if (a, b) == (400, 500) else a  # noqa: E731
    hidden = False
    dropped_identical = False
    with World(rand=rand) as w:
        announce = fam == "after-announce"
        host, s0 = setup(w, reference_sighting=not announce)
        seen_proc = host.seen_proc
        if announce:
            # the sighting is the host's own third announcement of S3 (registered last), looped back
            s0 = max(s.t_us for s in w.net.trace if s.host == host.name and s.multicast) / 1000 + 0.1
            w.advance_to_ms(s0)
        if fam in ("single", "multi", "after-announce"):
            kinds = [p["kind"]] if fam != "multi" else p["kinds"]
            gaps = [] if fam != "multi" else p["gaps"]
            t = s0 + p["age"]
            t_begin = t
            queries: List[Query] = []
            script = []
            for n, kind in enumerate(kinds):
                if n:
                    t += gaps[n - 1]
                qs, probe = KINDS[kind]
                auth = [("PTR", TA, 1, 4500, "proposed._a._tcp.local.")] if probe else []
                # (distinct ids keep the duplicate-datagram guard out of the picture; 'same_bytes' schedules leave it in: real
                # queriers all use id 0, so a repeated question IS the same datagram)
                data = wire.query([("Q", nm, ty, 1) for nm, ty in qs], authorities=auth, id_=0 if p.get("same_bytes") else n + 1)
                queries.append(Query(t, qs, probe))
                script.append((t, data, "10.0.0.99"))
            if p.get("update_after") is not None:
                # while the answers wait in a queue, another service that shares the host name is moved to a host of its own by
                # an update: what was queued for the host name stays due (its other user is still registered)
                moved = Svc(S2.type, S2.name, "h9.local.", S2.port, S2.text, [bytes([10, 0, 0, 9])], [])
                if p.get("move") == "sole":
                    # ... or the ONLY user of a host name is moved away: nothing owned by that host name is current any more
                    moved = Svc(S3.type, S3.name, "h9.local.", S3.port, S3.text, [bytes([10, 0, 0, 9])], [])
                w.loop.call_at((t_begin + p["update_after"]) / 1000,
                               lambda: w.spawn(host.zc.async_update_service(make_info(moved, None))))
            if p.get("sibling_ms"):
                sib = [("PTR", TA, 1, 4500, "neighbour._a._tcp.local."), ("PTR", TB, 1, 4500, "nb._b._tcp.local."),
                       ("A", S1.server, 1, 120, bytes([10, 0, 0, 201])), ("A", S3.server, 1, 120, bytes([10, 0, 0, 203])),
                       ("AAAA", S3.server, 1, 120, bytes.fromhex("fe8000000000000000000000000000cc")),
                       ("SRV", S1.name, 1, 120, 0, 0, 9999, "elsewhere.local."), ("TXT", S1.name, 1, 4500, b"\x05other")]
                script.append((t_begin - p["sibling_ms"], wire.response(sib), "10.0.0.77"))
            drive(w, host, script, t + 2500)
            floor = None
            if fam == "single":
                floor = {0: float(p["draw"])}
            if p.get("move") == "sole":
                # the asked host name has no records any more when the answer is due: the envelope oracle does not apply; what
                # must hold is that nothing owned by the abandoned host name is multicast once the update has been made
                t_upd = t_begin + p["update_after"]
                for d in decoded_trace_of(w, host.name):
                    if d.t_ms > t_upd + 0.5 and d.multicast and d.is_response:
                        old = [r for r in d.msg.records() if r[0] in ("A", "AAAA") and r[1].lower() == S3.server and r[3] > 0]
                        if old:
                            problems.append(f"stale: {old[0][:2]} multicast {d.t_ms - t_upd:.0f} ms after the update moved the only "
                                            f"service of that host name to another host")
                            break
            else:
                judge(problems, host.name, w, queries, t_begin, floor, wire_sightings(w, host))
            if problems and p.get("move") != "sole":
                # would the envelope hold if only the datagrams the host *processed* counted as sightings? then the
                # mismatch is the known interplay with the duplicate-datagram guard (identical consecutive packets)
                again: List[str] = []
                judge(again, host.name, w, queries, t_begin, floor, seen_proc.log)
                hidden = not again
                if not hidden and p.get("same_bytes"):
                    # would the envelopes hold if the queries that AsyncListener's duplicate guard discards (byte-identical to
                    # the datagram handled less than a second before on that socket) had never been sent?  then this is the
                    # open finding about identical queries, otherwise something else is wrong
                    # (the guard compares with the datagram handled LAST on the socket - the host's own looped-back answers
                    # count - and remembers only datagrams it handled)
                    dropped_at: Set[float] = set()
                    prev_data: Optional[bytes] = None
                    last_time = -1e18
                    for (t_arr, hname, data_arr, _src) in w.net.arrivals:
                        if hname != host.name:
                            continue
                        if data_arr == prev_data and t_arr - 1000 < last_time:
                            dropped_at.add(round(t_arr, 3))
                            continue
                        prev_data, last_time = data_arr, t_arr
                    kept = [q for q in queries if round(q.t, 3) not in dropped_at]
                    if len(kept) < len(queries):
                        third: List[str] = []
                        judge(third, host.name, w, kept, t_begin, floor, wire_sightings(w, host))
                        if not third:
                            dropped_identical = True
        else:
            t_begin = s0 + 5000
            w.advance_to_ms(t_begin - (100 if p.get("plain_ms") is not None else 1))
            judge_tc(problems, w, host, p, t_begin)
        excs = w.exceptions()
        if excs:
            problems.append(f"exception in the event loop: {excs[0]}")
        obs = digest([(round(s.t_us / 1000 - t_begin, 3), s.dest[:2], s.data) for s in w.net.trace
                      if s.host == host.name and s.t_us / 1000 >= t_begin])
        if verbose:
            for s in w.net.trace:
                if s.host == host.name and s.t_us / 1000 >= t_begin - 1:
                    d = Decoded(s)
                    print(f"    +{d.t_ms - t_begin:.1f}", d.brief())
            print("    draws", w.draws[-8:])
    verdict = None
    if problems:
        verdict = {"what": f"C12 {p}: {problems[0][:700]}", "replay": {"problems": problems[:5]},
                   "signature": {"check": "sighting-hidden-by-duplicate-guard" if hidden else (
                       "identical-query-dropped" if dropped_identical else problems[0].split(":")[0])}}
    return verdict, obs, w.loop.handles_run


def judge_tc(problems: List[str], w: World, host: Any, p: Dict[str, Any], t_begin: float) -> None:
    n, gaps, term = p["n"], p["gaps"], p["terminated"]
    ka_ptr1 = ("PTR", TA, 1, 4500, S1.name)
    ka_ptr2 = ("PTR", TA, 1, 4500, S2.name)
    packets: List[Tuple[List[Tuple[str, int]], List[tuple]]] = []
    for i in range(n):
        if p["content"] == "same-q/ka-split":
            q = [(TA, 12)] if i == 0 else []
            ka = [ka_ptr1] if i == 0 else ([ka_ptr2] if i == 1 else [("PTR", TB, 1, 10, S3.name)])
        elif p["content"] == "same-q/no-ka":
            q = [(TA, 12)] if i == 0 else [(TB, 12)] if i == 1 else [(S1.name, 16)] if i == 2 else [(S1.name, 33)]
            ka = []
        elif p["content"] == "probe-last":
            # the packet that ends the train is somebody's probe for a name this host owns: its authority section proposes
            # records, it does not list known answers - the question is owed its full answer
            q = [(TB, 12)] if i < n - 1 else [(TA, 12)]
            ka = []
        else:
            q = [[(TA, 12)], [(TB, 12)], [(S1.name, 33)], [(S1.server, 1)]][i]
            ka = [ka_ptr1] if i == 1 else []
        packets.append((q, ka))
    times = [t_begin]
    for g in gaps:
        times.append(times[-1] + g)
    srcs = ["10.0.0.99"] * n if p["sources"] == 1 else ["10.0.0.99", "10.0.0.98"][:n]
    draw = 400 + int(round(100 * p["tc_jitter"]))
    script = []
    for i, ((q, ka), t) in enumerate(zip(packets, times)):
        tc = not (term and i == n - 1)
        auth = [ka_ptr1, ka_ptr2] if p["content"] == "probe-last" and i == n - 1 else []
        data = wire.query([("Q", nm, ty, 1) for nm, ty in q], answers=ka, authorities=auth, id_=i + 1, tc=tc)
        script.append((t, data, srcs[i], tc))
    if p.get("sight_ms") is not None:
        w.loop.call_at((t_begin + p["sight_ms"]) / 1000, w.net.inject, host,
                       wire.response([ka_ptr1, ka_ptr2, ("PTR", TB, 1, 4500, S3.name)]), src_tuple("10.0.0.77"))
    if p.get("plain_ms") is not None:
        # another querier asks something else meanwhile, and its answer is under the one-second protection too (seen 100 ms
        # before the train began): a protected answer is already waiting when the train's answer joins the queue
        w.net.inject(host, wire.response([("PTR", TB, 1, 4500, S3.name)]), src_tuple("10.0.0.77"))
        w.settle()
        w.advance_to_ms(t_begin)
        w.loop.call_at((t_begin + p["plain_ms"]) / 1000, w.net.inject, host, wire.query([("Q", TB, 12, 1)], id_=77),
                       src_tuple("10.0.0.97"))
    if p["order"] == "packet-first":
        for t, data, src, tc in script:
            w.loop.call_at(t / 1000, w.net.inject, host, data, src_tuple(src))
        w.advance_to_ms(times[-1] + 3000)
    else:
        for t, data, src, tc in script:
            w.advance_to_ms(t)  # timers due at t run first
            w.net.inject(host, data, src_tuple(src))
            w.settle()
        w.advance_to_ms(times[-1] + 3000)
    trace_all = [Decoded(s) for s in w.net.trace if s.host == host.name]
    trace = [d for d in trace_all if d.t_ms >= t_begin]
    answers = [(d.t_ms, [key(ident(r)) for r in d.msg.answers], d) for d in trace if d.multicast and d.is_response]
    if p.get("plain_ms") is not None:
        # what is owed to the other querier is not the train's business (its own envelope: protected, so between one second
        # after the sighting at -100 ms and 1.2 s after its arrival)
        mine = key(("PTR", TB.lower(), 1, S3.name.lower()))
        t_plain = [t for t, ks, d in answers if mine in ks]
        lo, hi = t_begin - 100 + 1000, t_begin + p["plain_ms"] + 1200
        if len(t_plain) != 1 or not (lo - 0.5 <= t_plain[0] <= hi + 0.5):
            problems.append(f"plain: the other querier's protected answer was multicast at {[round(t - t_begin) for t in t_plain]} ms, "
                            f"owed once in [{lo - t_begin:.0f}, {hi - t_begin:.0f}]")
        answers = [(t, [k for k in ks if k != mine], d) for t, ks, d in answers]
        answers = [a for a in answers if a[1]]
    seen = wire_sightings(w, host)
    by_src: Dict[str, List[Tuple[float, int, bool]]] = {}
    for i, (t, data, src, tc) in enumerate(script):
        by_src.setdefault(src, []).append((t, i, tc))
    best: Optional[List[str]] = None
    n_ties = sum(1 for pk in by_src.values() for a, b in zip(pk, pk[1:]) if abs((b[0] - a[0]) - draw) < 1e-6)
    for ties in itertools.product((False, True), repeat=n_ties):
        found = _judge_trains(by_src, packets, answers, seen, draw, list(ties), t_begin)
        if best is None or len(found) < len(best):
            best = found
    problems.extend(best or [])


def _judge_trains(by_src: Dict[str, List[Tuple[float, int, bool]]], packets: list, answers: list,
                  seen: Dict[tuple, List[float]], draw: int, ties: List[bool], t_begin: float) -> List[str]:
    """Group packets into trains (per source; a train is held until 400-500 ms pass without a continuation or a
    non-TC packet arrives) and check that each train is answered exactly once."""
    problems: List[str] = []
    trains: List[Dict[str, Any]] = []
    for src, pk in by_src.items():
        cur: List[Tuple[float, int, bool]] = []
        for (t, i, tc) in pk:
            if cur:
                gap = t - cur[-1][0]
                if gap > draw + 1e-6 or (abs(gap - draw) < 1e-6 and not ties.pop(0)):
                    trains.append({"pk": cur, "closed": None})
                    cur = []
            cur.append((t, i, tc))
            if not tc:
                trains.append({"pk": cur, "closed": t})
                cur = []
        if cur:
            trains.append({"pk": cur, "closed": None})
    used: Set[Tuple[int, tuple]] = set()
    for tr in trains:
        qs: List[Tuple[str, int]] = []
        kas: List[tuple] = []
        for (t, i, tc) in tr["pk"]:
            qs += packets[i][0]
            kas += packets[i][1]
        want = {key(i) for i in expected_records(qs, kas)}
        last = tr["pk"][-1][0]
        if tr["closed"] is not None:
            e_lo = e_hi = tr["closed"]
        else:
            e_lo = e_hi = last + draw
        for k in want:
            # the held query is then answered like any other: within 500 ms, or - when the record was seen multicast
            # less than a second earlier - one second after that sighting and within 1.2 s
            windows = [(e_lo, e_hi + 500)]
            for s in seen.get(k, []):
                if s < e_hi and last - s < 1000:
                    windows.append((max(e_lo, s + 1000), e_hi + 1200))
            hits = [(ai, t) for ai, (t, ans, d) in enumerate(answers)
                    if k in ans and any(lo - 0.01 <= t <= hi + 0.01 for lo, hi in windows)]
            hits = [(ai, t) for ai, t in hits if (ai, k) not in used]
            if len(hits) < 1:
                problems.append(f"tc: {k} asked by the train {[(round(t - t_begin), 'TC' if tc else 'end') for t, i, tc in tr['pk']]} "
                                f"not answered in {[(round(a - t_begin), round(b - t_begin)) for a, b in windows]} ms; answers at "
                                f"{[(round(t - t_begin, 1)) for t, ans, d in answers if k in ans]}")
            else:
                used.add((hits[0][0], k))
    for ai, (t, ans, d) in enumerate(answers):
        for k in ans:
            if (ai, k) not in used:
                problems.append(f"tc: {k} multicast {t - t_begin:.1f} ms in, beyond the single answer owed to its train "
                                f"(answered twice, known answer ignored, or not held): {d.brief()}")
    return problems


def run(tier: str, seed: int) -> Tuple[Stats, str, List[str], Dict[str, Any]]:
    stats = Stats()
    pts = points(tier)
    for probe_pt in (pts[5], pts[len(pts) - 3]):
        if run_point(probe_pt)[1] != run_point(probe_pt)[1]:
            raise HarnessError("C12 scenario is not deterministic")
    explore_product(run_point, pts, stats, f"C12/{tier}")
    stats.states = len(stats.outcomes)
    fams: Dict[str, int] = {}
    for p in pts:
        fams[p["fam"]] = fams.get(p["fam"], 0) + 1
    stats.notes["family_sizes"] = fams
    rule = ("full product per family: single query x jitter 20..120 x sighting age {999,1000,1001,5000} ms; 2 and 3 "
            "queries x kinds x gap grid x jitter per draw; TC trains x gaps x terminated/not x content x TC jitter x "
            "order at the timer instant x 1/2 sources; distinct outcomes = distinct traces")
    assumptions = [
        "per (query, answer record) envelope: probe -> arrival instant; seen multicast < 1000 ms before arrival -> "
        "[sighting + 1000, arrival + 1200]; single SRV/A/AAAA/NSEC question -> arrival instant; otherwise "
        "[arrival + 20 (single-query family: + the actual draw), arrival + 500]",
        "every multicast answer must fit some query's envelope; additional-section records are not policed",
        "TC trains: answered in [last TC packet + 400, + 1000] (or within 500 ms of the terminating non-TC packet); a "
        "continuation arriving inside the random 400-500 ms window may or may not still belong to the train",
        "queries carry distinct ids so that the duplicate-datagram guard (C16) is not what is measured",
    ]
    return stats, rule, assumptions, {"points": len(pts), "families": fams}


def replay(data: Dict[str, Any]) -> int:
    p = dict(data["point"])
    v, o1, _ = run_point(p, verbose=True)
    if o1 != run_point(p)[1]:
        print("HARNESS-ERROR: replay is not deterministic")
        return 2
    if v:
        print("VIOLATION reproduced:", v["what"])
        for x in v["replay"]["problems"]:
            print("   ", x)
        return 1
    print("no violation on this tree")
    return 0
