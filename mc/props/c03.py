"""C03 - the responder answers exactly what is registered, minus what the querier knows (E2 BFS)."""
from __future__ import annotations

import itertools
from typing import Any, Dict, List, Optional, Sequence, Tuple

from .. import wire
from ..explore import Stats, bfs_histories, digest
from ..libconv import from_lib
from ..models import responder_model as rm
from ..models.cache_model import ident
from ..introspect import generic_canon, guarded
from ..world import World

ID = "C03"
TECHNIQUE = ("explicit-state BFS over register/update/unregister histories on a real instance (canonical registry "
             "state incl. empty index buckets and record memos); in every new state the whole query alphabet "
             "(single questions, question pairs, known-answer lists at TTL half-1/half/half+1/full) goes through "
             "DNSIncoming + QueryHandler.async_response and is compared with a reference responder")

V4A, V4B = b"\x0a\x00\x00\x01", b"\x0a\x00\x00\x02"
V6A = bytes.fromhex("fe800000000000000000000000000001")
V6B = bytes.fromhex("20010db8000000000000000000000002")

# name -> description; variants are (template, change)
TEMPLATES: Dict[str, rm.Svc] = {
    "S1": rm.Svc("_a._tcp.local.", "s1._a._tcp.local.", "h1.local.", 80, b"\x03a=b", [V4A], []),
    "S2": rm.Svc("_a._tcp.local.", "s2._a._tcp.local.", "h1.local.", 81, b"", [], [V6A]),
    "S3": rm.Svc("_b._tcp.local.", "s3._b._tcp.local.", "h2.local.", 82, b"\x01x", [V4B], [V6B], host_ttl=60, other_ttl=300),
    "S4": rm.Svc("_p._sub._a._tcp.local.", "s4._a._tcp.local.", "h4.local.", 83, b"", [V4A], []),
    "S5": rm.Svc("_A._tcp.local.", "S5._A._tcp.local.", "H5.Local.", 84, b"\x01y", [V4B], []),
    "S6": rm.Svc("_b._tcp.local.", "s6._b._tcp.local.", "h6.local.", 85, b"", [], []),
    # described without a host name: the library uses the instance name as host name (NO_SERVER: make_info leaves server= out)
    "S7": rm.Svc("_b._tcp.local.", "s7._b._tcp.local.", "s7._b._tcp.local.", 86, b"\x01z", [V4A], []),
}
NO_SERVER = {"s7._b._tcp.local."}


def variant(base: rm.Svc, change: str) -> rm.Svc:
    s = rm.Svc(base.type, base.name, base.server, base.port, base.text, base.v4, base.v6, base.host_ttl, base.other_ttl)
    if change == "port":
        s.port = base.port + 1000
    elif change == "text":
        s.text = b"\x03new"
    elif change == "addr":
        s.v4, s.v6 = [V4B, V4A] if base.v4 == [V4A] else [V4A], [V6B]
    elif change == "noaddr6":
        s.v6 = []
    elif change == "ttl":
        s.host_ttl, s.other_ttl = 30, 200
    elif change == "server":
        s.server = "moved.local."
    elif change == "subtype":
        s.type = "_q._sub." + base.type.split("._sub.")[-1]  # the instance keeps its name and moves to (another) subtype
    elif change == "basetype":
        s.type = base.type.split("._sub.")[-1]
    return s


def events_for(tier: str) -> List[tuple]:
    names = list(TEMPLATES)
    ev: List[tuple] = [("reg", n) for n in names] + [("unreg", n) for n in names] + [("ask",)]
    ev += [("upd", "S1", "port", "same"), ("upd", "S1", "text", "new"), ("upd", "S1", "addr", "same"),
           ("upd", "S1", "ttl", "same"), ("upd", "S3", "noaddr6", "same"), ("upd", "S2", "server", "new"),
           ("upd", "S1", "subtype", "new"), ("upd", "S4", "basetype", "new")]
    # the application changes the object it unregistered earlier and registers it again (record memos filled by the
    # goodbyes must not survive into the new registration)
    ev += [("rereg", "S1", "port"), ("rereg", "S1", "ttl"), ("rereg", "S3", "text")]
    ev += [("upd", "S7", "port", "new"), ("upd", "S7", "text", "same")]
    if tier != "quick":
        ev += [("rereg", "S2", "addr"), ("rereg", "S5", "port")]
        ev += [("upd", "S3", "ttl", "new"), ("upd", "S5", "port", "new"), ("upd", "S1", "server", "new"),
               ("upd", "S2", "addr", "new")]
    return ev


def make_info(s: rm.Svc) -> Any:
    from zeroconf import ServiceInfo

    server = None if (s.name in NO_SERVER and s.server == s.name) else s.server
    return ServiceInfo(s.type, s.name, s.port, s.weight, s.priority, s.text, server, s.host_ttl, s.other_ttl,
                       addresses=s.v4 + s.v6)


def mutate_info(info: Any, s: rm.Svc) -> None:
    """The application changes fields of the object it registered, then calls update."""
    from zeroconf import IPVersion

    if info.port != s.port:
        info.port = s.port
    if info.text != s.text:
        info._set_text(s.text)
    if info.addresses_by_version(IPVersion.All) != s.v4 + s.v6:
        info.addresses = s.v4 + s.v6
    if (info.host_ttl, info.other_ttl) != (s.host_ttl, s.other_ttl):
        info.host_ttl, info.other_ttl = s.host_ttl, s.other_ttl


class Replay:
    """Applies a history to a real instance and to the reference registry."""

    def __init__(self, w: World) -> None:
        self.w = w
        self.host = w.new_zeroconf()
        self.zc = self.host.zc
        self.model: Dict[str, rm.Svc] = {}
        self.infos: Dict[str, Any] = {}
        self.retired: Dict[str, Tuple[Any, rm.Svc]] = {}  # objects of unregistered services (applications reuse them)
        self.errors: List[str] = []

    def apply(self, ev: tuple) -> None:
        from zeroconf._exceptions import ServiceNameAlreadyRegistered

        zc, w = self.zc, self.w
        if ev[0] == "ask":
            # somebody browses and resolves everything that is registered (fills the responder's record memos)
            from zeroconf import DNSIncoming
            qs = [("Q", t, 12, 1) for t in sorted({d.type for d in self.model.values()})] + \
                 [("Q", d.name, 33, 1) for d in self.model.values()] + [("Q", d.server, 1, 1) for d in self.model.values()]
            if qs:
                zc.query_handler.async_response([DNSIncoming(wire.query(qs), ("10.9.9.8", 5353), None, w.now_ms)], False)
            return
        kind, n = ev[0], ev[1]
        if kind == "rereg":
            if n not in self.retired or n in self.model:
                return  # only an object that was registered and unregistered before can be changed and registered again
            info, desc = self.retired.pop(n)
            desc = variant(desc, ev[2])
            mutate_info(info, desc)
            w.run_coro(zc.async_register_service(info, cooperating_responders=True))
            self.model[n] = desc
            self.infos[n] = info
            w.settle()
            return
        if kind == "reg":
            desc = TEMPLATES[n]
            info = make_info(desc)
            if n in self.retired and n not in self.model:
                # the application registers the very object it unregistered earlier (with whatever it last described)
                info, desc = self.retired.pop(n)
            try:
                w.run_coro(zc.async_register_service(info, cooperating_responders=True))
                if n in self.model:
                    self.errors.append(f"registering {n} twice did not raise")
                self.model[n] = desc
                self.infos[n] = info
            except ServiceNameAlreadyRegistered:
                if n not in self.model:
                    self.errors.append(f"registering {n} raised ServiceNameAlreadyRegistered but it is not registered")
        elif kind == "unreg":
            info = self.infos.get(n) or make_info(TEMPLATES[n])
            w.run_coro(zc.async_unregister_service(info))
            if n in self.model:
                self.retired[n] = (info, self.model[n])
            self.model.pop(n, None)
            self.infos.pop(n, None)
        else:
            _, n, change, how = ev
            if n not in self.model:
                return  # updating an unregistered service is outside the operation model
            desc = variant(self.model[n], change)
            if how == "same" and change != "server":
                info = self.infos[n]
                mutate_info(info, desc)
            else:
                info = make_info(desc)
            try:
                w.run_coro(zc.async_update_service(info))
            except Exception as e:  # noqa: BLE001 - updating a registered service with a valid description must work
                self.errors.append(f"update of {n} ({change}, {how} object) raised {type(e).__name__}: {e}")
            self.model[n] = desc
            self.infos[n] = info
        w.settle()

    def canon(self) -> Any:
        reg = self.zc.registry

        def precise() -> Any:
            infos = []
            for key, i in sorted(reg._services.items()):
                infos.append((key, i.type, i.name, i.server, i.port, i.text, tuple(i.addresses_by_version(_ALL())),
                              i.host_ttl, i.other_ttl,
                              # the record memos with their *contents*: replies are served from them, so two registries
                              # that differ only in what a memo holds have different futures
                              tuple(_memo(getattr(i, a)) for a in _MEMOS)))
            # objects the application unregistered and may register again are part of the state: what they describe and
            # what their record memos hold decides what a later registration serves
            retired = [(n, i.type, i.name, i.server, i.port, i.text, tuple(i.addresses_by_version(_ALL())), i.host_ttl,
                        i.other_ttl, tuple(_memo(getattr(i, a)) for a in _MEMOS))
                       for n, (i, _d) in sorted(self.retired.items())]
            return (infos, sorted((k, tuple(v)) for k, v in reg.types.items()),
                    sorted((k, tuple(v)) for k, v in reg.servers.items()), reg.has_entries, retired)

        # the registry holds no instants, so a structural walk is a sound (finer) stand-in when its layout is unknown
        return guarded(precise, lambda: generic_canon((reg, [i for i, _d in self.retired.values()]), 0.0, depth=7))


_MEMOS = ("_dns_address_cache", "_dns_pointer_cache", "_dns_service_cache", "_dns_text_cache",
          "_get_address_and_nsec_records_cache")


def _memo(x: Any) -> Any:
    if x is None:
        return None
    recs = list(x) if isinstance(x, (list, set, tuple)) else [x]
    return sorted(repr(from_lib(r)) + f"/{r.ttl}" for r in recs)


def _ALL() -> Any:
    from zeroconf import IPVersion
    return IPVersion.All


def step(hist: tuple) -> Tuple[Optional[Dict[str, Any]], Any, int]:
    with World() as w:
        r = Replay(w)
        for ev in hist:
            r.apply(ev)
        canon = r.canon()
        verdict = None
        if r.errors:
            verdict = {"what": f"C03 {list(hist)}: {r.errors[0]}", "replay": {}, "signature": {"check": "api"}}
    return verdict, canon, len(hist)


# --------------------------------------------------------------------------------------------------
# query alphabet
# --------------------------------------------------------------------------------------------------

QTYPES = [12, 1, 28, 33, 16, 255, 47, 99]


def recase(n: str) -> str:
    return n.upper() if n != n.upper() else n.lower()


def query_names(model: Dict[str, rm.Svc]) -> List[str]:
    names: List[str] = []
    for t in TEMPLATES.values():
        for n in (t.type, t.name, t.server):
            for v in (n, recase(n)):
                if v not in names:
                    names.append(v)
    names += [rm.ENUM, rm.ENUM.upper(), "nobody._a._tcp.local.", "_zz._tcp.local.", "ghost.local.", "moved.local.",
              "_q._sub._a._tcp.local."]
    return names


def evaluate(zc: Any, model: Dict[str, rm.Svc], questions: Sequence[Tuple[str, int]], known: Sequence[tuple],
             now: float, split: bool = False) -> Optional[str]:
    """One query through the real decoder + responder vs. the reference responder."""
    from zeroconf import DNSIncoming
    from zeroconf._handlers.answers import construct_outgoing_multicast_answers

    if split and known:
        # a truncated query: the known answers follow in continuation packets (RFC 6762 s.7.2), reassembled by the listener
        half = max(1, len(known) // 2)
        datas = [wire.query([("Q", n, t, 1) for n, t in questions], answers=known[:0], tc=True),
                 wire.query([], answers=known[:half], tc=len(known) > half)]
        if len(known) > half:
            datas.append(wire.query([], answers=known[half:]))
        msgs = [DNSIncoming(d, ("10.9.9.9", 5353), None, now) for d in datas]
    else:
        msgs = [DNSIncoming(wire.query([("Q", n, t, 1) for n, t in questions], answers=known), ("10.9.9.9", 5353), None, now)]
    qa = zc.query_handler.async_response(msgs, False)
    exp = rm.answer(model, questions, known)
    got: Dict[tuple, Any] = {}
    adds: Dict[tuple, set] = {}
    add_ttl: Dict[tuple, Any] = {}
    buckets = [] if qa is None else [qa.ucast, qa.mcast_now, qa.mcast_aggregate, qa.mcast_aggregate_last_second]
    for b in buckets:
        for rec, additionals in b.items():
            got[ident(from_lib(rec))] = rec
            adds.setdefault(ident(from_lib(rec)), set()).update(ident(from_lib(a)) for a in additionals)
            for a in additionals:
                add_ttl.setdefault(ident(from_lib(a)), set()).add(a.ttl)
    label = f"query {list(questions)}{' (known answers in continuation packets)' if split else ''} " \
            f"known={[(k[0], k[1], k[3]) + tuple(k[4:5]) for k in known]}"
    want = dict(exp.records)
    # enumeration pointers
    got_enum = {i[3] for i in got if i[0] == "PTR" and i[1] == rm.ENUM}
    if got_enum != exp.enum_types:
        return f"{label}: type enumeration answers {sorted(got_enum)}, registered types {sorted(exp.enum_types)}"
    # NSEC obligations
    got_nsec = [i for i in got if i[0] == "NSEC"]
    need = list(exp.nsec)
    for i in got_nsec:
        hit = None
        for k, (s, missing) in enumerate(need):
            if i[1] in (s.name.lower(), s.server.lower()) and tuple(sorted(i[4])) == tuple(sorted(missing)):
                hit = k
                break
        if hit is None:
            # the same NSEC identity may serve several services only if they are the same name; otherwise extra
            if not any(i[1] in (s.name.lower(), s.server.lower()) for s, _ in exp.nsec):
                return f"{label}: unexpected NSEC answer {i}"
        else:
            need.pop(hit)
    # an NSEC named after the host may legitimately cover several services on that host
    need = [(s, m) for s, m in need if not any(i[1] == s.server.lower() and tuple(sorted(i[4])) == tuple(sorted(m))
                                               for i in got_nsec)]
    if need:
        return f"{label}: no NSEC for {[(s.name, m) for s, m in need]} although the asked address type does not exist"
    rest = {i: r for i, r in got.items() if i[0] != "NSEC" and not (i[0] == "PTR" and i[1] == rm.ENUM)}
    if not (set(want) - exp.optional <= set(rest) <= set(want)):
        return (f"{label}: answers {sorted(rest, key=repr)} != registered records that answer it "
                f"{sorted(want, key=repr)}")
    for i, rec in rest.items():
        if rec.ttl not in exp.ttls[i]:
            return f"{label}: {i} offered with TTL {rec.ttl}, configured {sorted(exp.ttls[i])}"
    # additionals: only that service's own SRV/TXT/address/NSEC records
    for i, extra in adds.items():
        owners = rm.owners_of(model, i)
        allowed: set = set()
        for s in owners:
            allowed |= s.own_idents()
        for a in extra:
            if a[0] == "NSEC":
                if not any(a[1] in (s.name.lower(), s.server.lower()) and tuple(sorted(a[4])) == tuple(sorted(s.missing()))
                           for s in owners):
                    return f"{label}: additional {a} of answer {i} is not that service's NSEC record"
            elif a not in allowed:
                return f"{label}: additional {a} of answer {i} is not one of that service's own records"
            # the TTL must be one that a registered service owning this very record configured (services sharing a
            # host and address may configure different TTLs for the same record)
            allowed_ttls = set()
            for s in model.values():
                if a[0] == "NSEC" and a[1] in (s.name.lower(), s.server.lower()):
                    allowed_ttls.add(s.host_ttl)
                for r in [s.ptr(), s.srv(), s.txt()] + s.addrs():
                    if ident(r) == a:
                        allowed_ttls.add(r[3])
            if allowed_ttls and not add_ttl.get(a, set()) <= allowed_ttls:
                return f"{label}: additional {a} offered with TTL {sorted(add_ttl.get(a, set()))}, configured {sorted(allowed_ttls)}"
    # never repeat an answer: build each bucket into a real message and look at the sections
    for b in buckets:
        if not b:
            continue
        out = construct_outgoing_multicast_answers(b)
        an = {ident(from_lib(r)) for r, _ in out.answers}
        ad = [ident(from_lib(r)) for r in out.additionals]
        if an & set(ad) or len(ad) != len(set(ad)):
            return f"{label}: additional section {ad} repeats an answer or itself (answers {sorted(an, key=repr)})"
    return None


def known_variants(model: Dict[str, rm.Svc], questions: Sequence[Tuple[str, int]]) -> List[List[tuple]]:
    """Known-answer lists: every candidate answer at TTL half-1, half, half+1, full - singly and all together."""
    exp = rm.answer(model, questions, [])
    cands: List[tuple] = []
    for s in model.values():
        for r in [s.ptr(), s.srv(), s.txt()] + s.addrs():
            if ident(r) in exp.records:
                cands.append(r)
    for t in sorted(exp.enum_types):
        cands.append(("PTR", rm.ENUM, 1, 4500, t))
    out: List[List[tuple]] = []
    for r in cands:
        half = r[3] // 2
        for ttl in (half - 1, half, half + 1, r[3]):
            if ttl >= 0:
                out.append([r[:3] + (ttl,) + r[4:]])
    if len(cands) > 1:
        for f in (lambda t: t // 2, lambda t: t // 2 + 1):
            out.append([r[:3] + (f(r[3]),) + r[4:] for r in cands])
    # the querier may spell names differently (records are identical case-insensitively)
    def recased(r: tuple) -> tuple:
        r = r[:1] + (recase(r[1]),) + r[2:]
        if r[0] in ("PTR", "CNAME"):
            r = r[:4] + (recase(r[4]),)
        if r[0] == "SRV":
            r = r[:7] + (recase(r[7]),)
        return r
    for r in cands:
        out.append([recased(r)])
        out.append([recased(r)[:3] + (r[3] // 2,) + recased(r)[4:]])
    # a known answer for something else must not suppress anything
    out.append([("A", "ghost.local.", 1, 120, V4A)])
    return out


def state_oracle(hist: tuple) -> Tuple[Optional[Dict[str, Any]], int]:
    n = 0
    with World() as w:
        r = Replay(w)
        for ev in hist:
            r.apply(ev)
        zc, model, now = r.zc, r.model, w.now_ms
        names = query_names(model)
        # (ANY on a host name is outside the statement - unless that name is an instance name as well, which is what a
        # description without a host name gives: its SRV and TXT records are owed)
        instance_names = {s.name.lower() for s in model.values()} if isinstance(model, dict) else set()
        singles = [(nm, t) for nm in names for t in QTYPES
                   if not (t == 255 and nm.lower() not in instance_names and
                           nm.lower() in {s.server.lower() for s in TEMPLATES.values()} | {"moved.local."})]
        problem = None
        for q in singles:
            n += 1
            problem = evaluate(zc, model, [q], [], now)
            if problem:
                break
            if rm.answer(model, [q], []).records or rm.answer(model, [q], []).enum_types:
                for kn in known_variants(model, [q]):
                    n += 1
                    problem = evaluate(zc, model, [q], kn, now)
                    if not problem and len(kn) > 1:
                        n += 1
                        problem = evaluate(zc, model, [q], kn, now, split=True)
                    if problem:
                        break
            if problem:
                break
        if not problem:
            red = [(t.type, 12) for t in TEMPLATES.values()] + [(t.name, 33) for t in TEMPLATES.values()] + \
                  [(t.server, 1) for t in TEMPLATES.values()] + [(TEMPLATES["S1"].name, 16), (TEMPLATES["S2"].server, 28),
                                                                  (rm.ENUM, 12), (TEMPLATES["S1"].name, 255)]
            seen_q = set()
            red = [q for q in red if not (q in seen_q or seen_q.add(q))]
            for a, b in itertools.permutations(red, 2):
                n += 1
                problem = evaluate(zc, model, [a, b], [], now)
                if problem:
                    break
        if not problem:
            # the same through the front door: a query datagram delivered to the listener must be answered on the wire
            w.advance(2500)  # announcements of the last registration/update are over and more than a second old
            for tname in sorted({d.type for d in model.values()}):
                n += 1
                n0 = len(w.net.trace)
                w.net.inject(r.host, wire.query([("Q", tname, 12, 1)], id_=n & 0xFFFF), ("10.9.9.7", 5353))
                w.advance(1300)  # aggregation (<= 500 ms) or one-second protection (<= 1.2 s), see C12
                seen = set()
                for s_ in w.net.trace[n0:]:
                    m = wire.decode(s_.data)
                    if m.is_response:
                        seen |= {ident(a) for a in m.answers}
                want_ptrs = {ident(d.ptr()) for d in model.values() if d.type.lower() == tname.lower()}
                if not want_ptrs <= seen:
                    problem = (f"query [('{tname}', 12)] delivered to the listener: pointers {sorted(want_ptrs - seen, key=repr)} "
                               f"not answered on the wire within 1.3 s")
                    break
        excs = w.exceptions()
        if not problem and excs:
            problem = f"exception in the event loop: {excs[0]}"
    if problem:
        sig = "enumeration-stale-type" if "type enumeration answers" in problem else "responder"
        return ({"what": f"C03 after {list(hist)}: {problem[:700]}", "replay": {"problem": problem[:2000]},
                 "signature": {"check": sig}}, n)
    return None, n


# --------------------------------------------------------------------------------------------------
# "after a service is updated replies reflect only the new state" - also for replies that were being prepared
# --------------------------------------------------------------------------------------------------


def pending_points(tier: str) -> List[Dict[str, Any]]:
    pts = []
    for svc in ("S1", "S3", "S5", "S7"):
        for change in ("port", "text", "addr", "server"):
            for how in ("same", "new"):
                if change == "server" and how == "same":
                    continue  # (the host name is only changed through a new object, see assumptions)
                for query in ("ptr", "srv+a", "a+ptr"):
                    for delay in (5, 60):
                        for protected in (False, True):
                            pts.append({"svc": svc, "change": change, "how": how, "query": query, "delay": delay,
                                        "protected": protected})
    return pts if tier != "quick" else pts[::2] + pts[1::6]


def run_pending(p: Dict[str, Any]) -> Tuple[Optional[Dict[str, Any]], str, int]:
    """A query is answered by multicast after a delay (aggregation, or the one-second protection); the service is updated
    while the answer waits.  Whatever is multicast after the update must belong to the registry as it is then."""
    from ..explore import digest as _digest
    problem = None
    with World() as w:
        r = Replay(w)
        for n_ in ("S1", "S2", "S3", "S5", "S7"):
            r.apply(("reg", n_))
        w.advance(3000)
        old = r.model[p["svc"]]
        qs = {"ptr": [("Q", old.type, 12, 1)], "srv+a": [("Q", old.name, 33, 1), ("Q", old.server, 1, 1)],
              "a+ptr": [("Q", old.server, 1, 1), ("Q", old.type, 12, 1)]}[p["query"]]
        if p["protected"]:
            # a cooperating responder multicast the records half a second ago: the answer is held for about a second
            recs = [old.ptr(), old.srv(), old.txt()] + old.addrs()
            w.net.inject(r.host, wire.response(recs), ("10.9.9.6", 5353))
            w.advance(500)
        w.net.inject(r.host, wire.query(qs, id_=0), ("10.9.9.7", 5353))
        w.advance(p["delay"])
        t_upd = w.now_ms
        r.apply(("upd", p["svc"], p["change"], p["how"]))
        if r.errors:
            problem = r.errors[0]
        new = r.model[p["svc"]]
        w.advance(2500)
        # everything the registry holds now
        current = set()
        for d in r.model.values():
            for rec in [d.ptr(), d.srv(), d.txt()] + d.addrs():
                current.add(ident(rec))
        own_names = {old.name.lower(), old.server.lower(), new.server.lower()}
        for s_ in w.net.trace:
            if s_.t_us / 1000 <= t_upd or problem:
                continue
            m = wire.decode(s_.data)
            if not m.is_response:
                continue
            for rec in m.records():
                if rec[0] in ("NSEC", "RAW") or rec[3] == 0:
                    continue
                if rec[1].lower() in own_names and ident(rec) not in current:
                    problem = (f"after the update ({p['change']}, {p['how']} object) of {old.name} a reply still carries {rec[:2]} "
                               f"rdata {rec[4:]}, which belongs to the description that was replaced "
                               f"({s_.t_us / 1000 - t_upd:.0f} ms after the update)")
                    break
        excs = w.exceptions()
        if not problem and excs:
            problem = f"exception in the event loop: {excs[0]}"
        obs = _digest([(round(s_.t_us / 1000 - t_upd), s_.data) for s_ in w.net.trace if s_.t_us / 1000 > t_upd - 700])
    if problem:
        return ({"what": f"C03 pending reply {p}: {problem[:700]}", "replay": {"pending": p}, "signature": {"check": "pending-reply"}},
                obs, 1)
    return None, obs, 1


def run(tier: str, seed: int) -> Tuple[Stats, str, List[str], Dict[str, Any]]:
    stats = Stats()
    from ..explore import explore_product
    explore_product(run_pending, pending_points(tier), stats, f"C03/{tier}/pending")
    depth = 4 if tier == "quick" else 6
    events = events_for(tier)
    log: List[Dict[str, int]] = []
    bfs_histories(step, events, depth, stats, f"C03/{tier}", level_log=log, state_oracle=state_oracle,
                  max_states=None if tier == "quick" else 6000)
    stats.notes["levels"] = log
    stats.notes["events"] = [list(e) for e in events]
    rule = ("every history of <= depth register/update/unregister calls (real async_register_service with cooperating "
            "responders, async_update_service, async_unregister_service); state = canonical registry (services, "
            "type/server indexes incl. empty buckets, record memo slots); in each new state every query of the "
            "alphabet is evaluated (transitions counts those evaluations)")
    assumptions = [
        "ANY questions on host names and on the enumeration name, and NSEC records in known-answer lists: not generated",
        "NSEC answers are accepted under the instance name or the host name (the statement does not say which)",
        "type-enumeration pointers: presence compared, TTL not",
        "a subtype is registered the way the library supports it (a service whose type is the _sub name)",
        "updates: fields changed on the registered object or a new object with the same name; the server name is only "
        "changed through a new object",
    ]
    return stats, rule, assumptions, {"depth": depth, "events": len(events)}


def replay(data: Dict[str, Any]) -> int:
    if "pending" in data or "point" in data:
        v, _, _ = run_pending(dict(data.get("pending") or data["point"]))
        if v:
            print("VIOLATION reproduced:", v["what"])
            return 1
        print("no violation on this tree")
        return 0
    hist = tuple(tuple(e) for e in data["history"])
    v, n = state_oracle(hist)
    v2, _ = state_oracle(hist)
    if (v is None) != (v2 is None):
        print("HARNESS-ERROR: replay is not deterministic")
        return 2
    if v:
        print("VIOLATION reproduced:", v["what"])
        return 1
    print(f"no violation on this tree ({n} queries evaluated)")
    return 0
