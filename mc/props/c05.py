"""C05 - record cache: all lookup paths agree with an RFC 6762 s.10 reference model (E2 BFS)."""
from __future__ import annotations

from typing import Any, Dict, List, Tuple

from ..explore import Stats
from ..world import HarnessError
from . import cachesearch

ID = "C05"
TECHNIQUE = ("explicit-state BFS over histories of response datagrams and clock steps on the real record manager/"
             "cache with canonical-state de-duplication; reference-model comparison of every lookup path in every state")


def run(tier: str, seed: int) -> Tuple[Stats, str, List[str], Dict[str, Any]]:
    stats = Stats()
    depth = 4 if tier == "quick" else 5
    logs: Dict[str, list] = {}
    # abstraction self-check: with and without de-duplication the same canonical states per level
    chk_depth = 2
    s1, s2 = Stats(), Stats()
    a = cachesearch.run_search(ID, "quick", chk_depth, s1, ["passive"], dedup=True)["passive"]
    b = cachesearch.run_search(ID, "quick", chk_depth, s2, ["passive"], dedup=False)["passive"]
    if a[1] != b[1] or not a[2] <= b[2] or len(s1.violations) > len(s2.violations):
        raise HarnessError("canonical form too coarse: de-duplicated search reached different states")
    reach_all = set().union(*b.values())
    reach_dedup = set().union(*a.values())
    if reach_all != reach_dedup:
        raise HarnessError("canonical form too coarse: states reachable without de-duplication are missed with it")
    if tier == "quick":
        cachesearch.run_search(ID, "quick", depth, stats, ["passive"], level_logs=logs)
    else:
        # deep over the quick alphabet (38 events), wide over the thorough alphabet (110 events)
        cachesearch.run_search(ID, "quick", depth, stats, ["passive"], level_logs=logs, max_states=3_000_000)
        wide: Dict[str, list] = {}
        cachesearch.run_search(ID, "thorough", 3, stats, ["passive"], level_logs=wide, max_states=2_000_000)
        stats.notes["levels_wide_alphabet"] = wide
    s = cachesearch.Search(ID, tier)
    stats.notes["levels"] = logs
    stats.notes["alphabet_datagrams"] = len(s.dgrams)
    stats.notes["alphabet_clock_steps_ms"] = s.steps
    stats.notes["self_check"] = {"depth": chk_depth, "states_with_dedup": len(reach_dedup),
                                 "states_without": len(reach_all)}
    rule = ("every history of <= depth events over the alphabet (response datagrams through "
            "RecordManager.async_updates_from_response on a live instance, and clock steps incl. the real 10 s purge "
            "timer); a state is the canonical (time-relative) cache content + purge-timer phase; outcomes are distinct "
            "canonical states")
    assumptions = [
        "datagrams are fed at the record-manager seam (the listener's duplicate guard is C16's subject)",
        "datagrams that withdraw (TTL 0) and assert (TTL>0) the same record are compared for totality only",
        "single-result lookups (get_by_details, get(DNSEntry)) may return any matching record of the model",
        "region argument: behaviour only changes when a clock difference crosses 1000 ms, a TTL or the 10 s purge period",
    ]
    bounds = {"depth": depth, "events": len(cachesearch.Search(ID, "quick").events),
              "wide_alphabet": None if tier == "quick" else {"depth": 3, "events": len(s.events)}}
    return stats, rule, assumptions, bounds


def replay(data: Dict[str, Any]) -> int:
    return cachesearch.replay(ID, data)
