"""Model-checking machinery for python-zeroconf (see /verif/DESIGN.md).

Importing this package makes sure `zeroconf` is imported from the tree under test:
`$VERIF_REPO/src` when set (scratch copies for mutant evaluation), else `/repo/src`.
"""
import os
import sys

REPO = os.environ.get("VERIF_REPO", "/repo")
_src = os.path.join(REPO, "src")
if _src not in sys.path:
    sys.path.insert(0, _src)

VERIF_DIR = os.path.dirname(os.path.dirname(os.path.abspath(__file__)))
