"""Reference record cache: RFC 6762 section 10 as the property texts (C05/C06) state it.

Plain dicts, no code shared with zeroconf. Records are the wire.py entry tuples.
Identity: owner name (case-folded), type, class (top bit stripped) and rdata (PTR/CNAME target and SRV
target case-folded; everything else exact).
"""
from __future__ import annotations

from typing import Any, Dict, List, Optional, Tuple

PTR_FLOOR = 1125  # seconds (const._DNS_PTR_MIN_TTL = 4500 / 4)


def ident(e: tuple) -> tuple:
    k = e[0]
    name = e[1].lower()
    cls = e[2] & 0x7FFF
    if k in ("A", "AAAA"):
        return (k, name, cls, bytes(e[4]))
    if k in ("PTR", "CNAME"):
        return (k, name, cls, e[4].lower())
    if k == "TXT":
        return (k, name, cls, bytes(e[4]))
    if k == "SRV":
        return (k, name, cls, e[4], e[5], e[6], e[7].lower())
    if k == "HINFO":
        return (k, name, cls, e[4], e[5])
    if k == "NSEC":
        return (k, name, cls, e[4], tuple(sorted(e[5])))
    raise ValueError(k)


def flushed(e: tuple) -> bool:
    return bool(e[2] & 0x8000)


class Entry:
    __slots__ = ("created", "ttl", "first")

    def __init__(self, created: float, ttl: int, first: tuple) -> None:
        self.created = created
        self.ttl = ttl
        self.first = first  # the entry as first stored (spelling is kept by the cache until removal)

    def expired(self, now: float) -> bool:
        return self.created + self.ttl * 1000 <= now


class CacheModel:
    def __init__(self) -> None:
        self.recs: Dict[tuple, Entry] = {}

    # -- RFC 6762 s.10 ---------------------------------------------------------------------
    def datagram(self, entries: List[tuple], now: float) -> Dict[str, Any]:
        """Apply one response datagram received at `now`. Returns what the update listeners must see."""
        present = {ident(e) for e in entries}
        pairs: List[Tuple[tuple, int, bool]] = []  # (identity, effective ttl, previous existed) in datagram order
        adds: List[Tuple[tuple, tuple, int]] = []
        removes: List[tuple] = []
        contradictory = False
        seen_ttl: Dict[tuple, bool] = {}
        for e in entries:
            i = ident(e)
            ttl = e[3]
            if ttl and e[0] == "PTR" and ttl < PTR_FLOOR:
                ttl = PTR_FLOOR
            if i in seen_ttl and seen_ttl[i] != bool(ttl):
                contradictory = True  # same record withdrawn and asserted in one datagram: text gives no order
            seen_ttl[i] = bool(ttl)
            had = i in self.recs
            if ttl > 0:
                if had:
                    ent = self.recs[i]
                    ent.created, ent.ttl = now, ttl  # refresh: visible to listeners before the adds
                else:
                    adds.append((i, e, ttl))
                pairs.append((i, ttl, had))
            elif had:
                pairs.append((i, 0, True))
                removes.append(i)
        # cache-flush: *other* records of the same name/type/class older than one second expire in 1 s
        marked: List[tuple] = []
        for e in entries:
            if not flushed(e):
                continue
            kind, name, cls = e[0], e[1].lower(), e[2] & 0x7FFF
            for i, ent in self.recs.items():
                if i[0] == kind and i[1] == name and i[2] == cls and i not in present and now - ent.created > 1000:
                    ent.created, ent.ttl = now, 1
                    marked.append(i)
        before_adds = self.snapshot()
        for i, e, ttl in adds:
            self.recs[i] = Entry(now, ttl, e)  # a repeated record: the last occurrence's TTL wins
        for i in removes:
            self.recs.pop(i, None)
        return {"pairs": pairs, "snapshot_at_notify": before_adds, "contradictory": contradictory,
                "marked": marked, "new": bool(adds)}

    def purge(self, now: float) -> List[tuple]:
        gone = [i for i, ent in self.recs.items() if ent.expired(now)]
        for i in gone:
            del self.recs[i]
        return gone

    # -- views ------------------------------------------------------------------------------
    def snapshot(self) -> List[Tuple[tuple, float, int]]:
        return sorted(((i, ent.created, ent.ttl) for i, ent in self.recs.items()), key=repr)

    def by_name(self, name: str) -> List[Tuple[tuple, float, int]]:
        n = name.lower()
        return sorted(((i, ent.created, ent.ttl) for i, ent in self.recs.items() if i[1] == n), key=repr)

    def by_details(self, name: str, kind: str, cls: int) -> List[Tuple[tuple, float, int]]:
        n = name.lower()
        return sorted(((i, ent.created, ent.ttl) for i, ent in self.recs.items()
                       if i[1] == n and i[0] == kind and i[2] == cls), key=repr)

    def by_server(self, server: str) -> List[Tuple[tuple, float, int]]:
        s = server.lower()
        return sorted(((i, ent.created, ent.ttl) for i, ent in self.recs.items() if i[0] == "SRV" and i[6] == s),
                      key=repr)

    def names(self) -> List[str]:
        return sorted({i[1] for i in self.recs})

    def get(self, i: tuple) -> Optional[Tuple[tuple, float, int]]:
        ent = self.recs.get(i)
        return None if ent is None else (i, ent.created, ent.ttl)
