"""Independent reading of the documented RFC 6763 service-name rules (three-valued) and of the
RFC 6763 section 6 TXT format.  Shares no code with zeroconf.
"""
from __future__ import annotations

from typing import Dict, List, Optional, Tuple

ACCEPT, REJECT, UNSPEC = "ACCEPT", "REJECT", "UNSPECIFIED"

_LETTERS = set("abcdefghijklmnopqrstuvwxyzABCDEFGHIJKLMNOPQRSTUVWXYZ")
_DIGITS = set("0123456789")


def _service_label_ok(label: str, strict: bool) -> bool:
    """<sn>: leading underscore; letters/digits/hyphens (non-strict: underscores too); no leading, trailing or
    double hyphen; at least one letter; at most 15 characters after the underscore (strict only)."""
    if not label or label[0] != "_":
        return False
    rest = label[1:]
    if not rest:
        return False
    if strict and len(rest) > 15:
        return False
    if "--" in rest or rest[0] == "-" or rest[-1] == "-":
        return False
    if not any(c in _LETTERS for c in rest):
        return False
    allowed = _LETTERS | _DIGITS | {"-"} | (set() if strict else {"_"})
    return all(c in allowed for c in rest)


def _has_control(s: str) -> bool:
    return any(ord(c) < 0x20 or ord(c) == 0x7F for c in s)


def verdict(name: str, strict: bool) -> Tuple[str, Optional[str]]:
    """(ACCEPT, service type) | (REJECT, None) | (UNSPECIFIED, service type the validator may return)."""
    if len(name) > 256:
        return REJECT, None
    proto = None
    for p in ("._tcp.local.", "._udp.local."):
        if name.endswith(p):
            proto = p
    if proto is not None:
        prefix = name[: -len(proto)]
        labels = prefix.split(".")
        service = labels.pop()
        if not _service_label_ok(service, strict):
            return REJECT, None
        result = service + proto
    elif strict:
        return REJECT, None
    elif name.endswith(".local."):
        prefix = name[: -len(".local.")]
        labels = prefix.split(".")
        result = "local."
    else:
        return REJECT, None

    # what is left is nothing, <Instance>, or <sub>._sub
    if not labels:
        return ACCEPT, result
    if labels == [""]:
        # the name starts with a dot
        return (REJECT, None) if proto is not None else (UNSPEC, result)
    if labels[-1] == "_sub":
        labels = labels[:-1]
        if not labels or labels == [""]:
            return REJECT, None  # <sub>._sub requires a subtype
    if any(l == "" for l in labels):
        return UNSPEC, result  # empty labels inside the instance part: the documented rules do not decide
    inst = ".".join(labels)
    if _has_control(inst):
        return REJECT, None
    try:
        inst_bytes = inst.encode("utf-8")
    except UnicodeEncodeError:
        return REJECT, None  # a lone surrogate: not text that can be put on the wire, hence not an instance label
    if len(inst_bytes) > 63:
        if proto is None and len(labels) > 1:
            return UNSPEC, result  # bare .local. names: which part is "the instance label" is not documented
        return REJECT, None
    return ACCEPT, result


# --------------------------------------------------------------------------------------------------
# TXT (RFC 6763 s.6)
# --------------------------------------------------------------------------------------------------


def parse_txt(data: bytes, fold_empty: bool = True) -> Dict[bytes, Optional[bytes]]:
    """key -> value bytes; None for a key without '='.  RFC 6763 s.6.4 tells "key" (no value) from "key=" (empty value): with
    fold_empty=False an empty value stays b""; with fold_empty=True it becomes None, which is how the library documents its
    own reading.  First occurrence of a key wins (s.6.4)."""
    out: Dict[bytes, Optional[bytes]] = {}
    i = 0
    n = len(data)
    while i < n:
        ln = data[i]
        i += 1
        if i + ln > n:
            raise ValueError("TXT item runs past the end")
        item = data[i:i + ln]
        i += ln
        if b"=" in item:
            k, v = item.split(b"=", 1)
            val: Optional[bytes] = v if (v or not fold_empty) else None
        else:
            k, val = item, None
        if k not in out:
            out[k] = val
    return out


def expected_txt(props: List[Tuple[object, object]], fold_empty: bool = True) -> Dict[bytes, Optional[bytes]]:
    """What a properties dict (given as ordered (key, value) pairs) means, as bytes."""
    out: Dict[bytes, Optional[bytes]] = {}
    for k, v in props:
        kb = k.encode("utf-8") if isinstance(k, str) else bytes(k)  # type: ignore[arg-type]
        if v is None:
            vb: Optional[bytes] = None
        elif isinstance(v, bytes):
            vb = v
        else:
            vb = str(v).encode("utf-8")
        if vb == b"" and fold_empty:
            vb = None
        if kb not in out:
            out[kb] = vb
    return out
