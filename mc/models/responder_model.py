"""Reference responder: a plain dict of service descriptions -> the records that answer a query
(RFC 6762 s.6 / RFC 6763 s.12 as the C03 statement puts it).  No code shared with zeroconf.

Identities are the cache_model.ident tuples of wire.py entries.
"""
from __future__ import annotations

from typing import Any, Dict, List, Optional, Sequence, Set, Tuple

from .cache_model import ident

ENUM = "_services._dns-sd._udp.local."
T_A, T_PTR, T_TXT, T_AAAA, T_SRV, T_NSEC, T_ANY = 1, 12, 16, 28, 33, 47, 255
IN, FL = 1, 0x8001


class Svc:
    """A service description (what the application registered)."""

    def __init__(self, type_: str, name: str, server: str, port: int, text: bytes, v4: Sequence[bytes],
                 v6: Sequence[bytes], host_ttl: int = 120, other_ttl: int = 4500, priority: int = 0,
                 weight: int = 0) -> None:
        self.type, self.name, self.server, self.port, self.text = type_, name, server, port, text
        self.v4, self.v6 = list(v4), list(v6)
        self.host_ttl, self.other_ttl, self.priority, self.weight = host_ttl, other_ttl, priority, weight

    # records as wire tuples -------------------------------------------------------------------
    def ptr(self) -> tuple:
        return ("PTR", self.type, IN, self.other_ttl, self.name)

    def srv(self) -> tuple:
        return ("SRV", self.name, FL, self.host_ttl, self.priority, self.weight, self.port, self.server)

    def txt(self) -> tuple:
        return ("TXT", self.name, FL, self.other_ttl, self.text)

    def addrs(self) -> List[tuple]:
        return [("A", self.server, FL, self.host_ttl, a) for a in self.v4] + \
               [("AAAA", self.server, FL, self.host_ttl, a) for a in self.v6]

    def missing(self) -> Tuple[int, ...]:
        return tuple(t for t, have in ((T_A, self.v4), (T_AAAA, self.v6)) if not have)

    def own_idents(self) -> Set[tuple]:
        return {ident(r) for r in [self.ptr(), self.srv(), self.txt()] + self.addrs()}


class Expected:
    """What a reply must contain: exact records, plus per-service NSEC obligations."""

    def __init__(self) -> None:
        self.records: Dict[tuple, int] = {}  # identity -> configured TTL (of the last service that owns it)
        self.ttls: Dict[tuple, Set[int]] = {}  # identity -> every TTL some owning service configured
        self.optional: Set[tuple] = set()  # identities that may or may not be offered (known answer between the TTLs' halves)
        self.nsec: List[Tuple[Svc, Tuple[int, ...]]] = []  # (service, missing types) each needs one NSEC answer
        self.enum_types: Set[str] = set()  # enumeration pointers (identity by lower-cased target)

    def add(self, rec: tuple) -> None:
        self.records[ident(rec)] = rec[3]
        self.ttls.setdefault(ident(rec), set()).add(rec[3])


def answer(registry: Dict[str, Svc], questions: Sequence[Tuple[str, int]], known: Sequence[tuple]) -> Expected:
    """questions: (name, qtype) class IN. known: wire tuples from the query's answer section."""
    exp = Expected()
    for qname, qtype in questions:
        q = qname.lower()
        if q == ENUM:
            if qtype in (T_PTR, T_ANY):  # an ANY question is answered by every record of the name: here the pointers
                for s in registry.values():
                    exp.enum_types.add(s.type.lower())
            continue
        for s in registry.values():
            if qtype in (T_PTR, T_ANY) and s.type.lower() == q:
                exp.add(s.ptr())
            if qtype in (T_SRV, T_ANY) and s.name.lower() == q:
                exp.add(s.srv())
            if qtype in (T_TXT, T_ANY) and s.name.lower() == q:
                exp.add(s.txt())
            if qtype in (T_A, T_AAAA) and s.server.lower() == q:
                have = s.v4 if qtype == T_A else s.v6
                if have:
                    for r in s.addrs():
                        if (r[0] == "A") == (qtype == T_A):
                            exp.add(r)
                else:
                    exp.nsec.append((s, s.missing()))
    # known-answer suppression: the querier already holds the record with more than half of its TTL
    for k in known:
        try:
            i = ident(k)
        except ValueError:
            continue
        if i in exp.records:
            # services sharing a host (and address) may configure different TTLs for the very same record
            if k[3] > max(exp.ttls[i]) / 2:
                del exp.records[i]
            elif k[3] > min(exp.ttls[i]) / 2:
                exp.optional.add(i)
        if k[0] == "PTR" and k[1].lower() == ENUM and k[4].lower() in exp.enum_types and k[3] > 4500 / 2:
            exp.enum_types.discard(k[4].lower())
    return exp


def owners_of(registry: Dict[str, Svc], rec_ident: tuple) -> List[Svc]:
    """Services a reply record can belong to (for the 'additionals are only that service's own records' rule)."""
    out = []
    for s in registry.values():
        if rec_ident in s.own_idents():
            out.append(s)
        elif rec_ident[0] == "NSEC" and rec_ident[1] in (s.name.lower(), s.server.lower()):
            out.append(s)
    return out
