"""Evidence files, replay files, known-findings matching, and the common check driver."""
from __future__ import annotations

import json
import os
import subprocess
import sys
import time
from typing import Any, Callable, Dict, List, Optional

from . import REPO, VERIF_DIR
from .explore import NPROC, Stats, Violation, digest, jsonable, watchdog_cut_short

# runs against a scratch copy (VERIF_REPO, mutant evaluation) must not overwrite the real evidence
_SCRATCH = os.environ.get("VERIF_SCRATCH_OUT") or (None if REPO == "/repo" else "/tmp/verif-scratch-out")
EVIDENCE_DIR = os.path.join(_SCRATCH or VERIF_DIR, "evidence")
REPLAY_DIR = os.path.join(_SCRATCH or VERIF_DIR, "replays")
FINDINGS_FILE = os.path.join(VERIF_DIR, "known_findings.json")


def load_findings() -> Dict[str, Any]:
    try:
        with open(FINDINGS_FILE) as f:
            return json.load(f)
    except FileNotFoundError:
        return {"open": [], "fixed": []}


def match_open_finding(prop: str, v: Violation, findings: Dict[str, Any]) -> Optional[Dict[str, Any]]:
    """A violation is a known finding iff every key of a listed signature equals the violation's."""
    for f in findings.get("open", []):
        if f.get("property") != prop:
            continue
        sig = f.get("signature") or {}
        if sig and all(v.signature.get(k) == val for k, val in sig.items()):
            return f
    return None


def write_replay(prop: str, v: Violation) -> str:
    d = os.path.join(REPLAY_DIR, prop)
    os.makedirs(d, exist_ok=True)
    body = {"property": prop, "what": v.what, "signature": jsonable(v.signature), "replay": jsonable(v.replay)}
    path = os.path.join(d, digest(body) + ".json")
    with open(path, "w") as f:
        json.dump(body, f, indent=1, sort_keys=True)
    return path


def validate_evidence(path: str) -> Optional[str]:
    """Validate against the harness schema when a python with jsonschema is around (tooling venv)."""
    schema = "/root/.vp/EVIDENCE.schema.json"
    if not os.path.exists(schema):
        return None
    code = ("import json,sys,jsonschema;"
            "jsonschema.validate(json.load(open(sys.argv[1])),json.load(open(sys.argv[2])))")
    for py in ("python3-vt", "/opt/veriftools/pyvenv/bin/python"):
        try:
            r = subprocess.run([py, "-c", code, path, schema], capture_output=True, text=True, timeout=60)
        except (FileNotFoundError, subprocess.TimeoutExpired):
            continue
        return None if r.returncode == 0 else r.stderr.strip().splitlines()[-1]
    return None


def finish(prop: str, tier: str, seed: int, stats: Stats, t0: float, rule: str, assumptions: List[str],
           bounds: Dict[str, Any], technique: str) -> int:
    """Write evidence + replay files, print VIOLATION / KNOWN-FINDING lines, return the exit code."""
    if watchdog_cut_short():
        stats.caps.append("cut short: the code under test failed to terminate in a dozen executions; the executions still "
                          "queued after that were not started")
        stats.exhaustive = False
    findings = load_findings()
    new_violations: List[Violation] = []
    known_hits: Dict[str, int] = {}
    known_text: Dict[str, str] = {}
    for v in stats.violations:
        f = match_open_finding(prop, v, findings)
        if f is not None:
            key = f.get("id", f.get("text", "?"))
            known_hits[key] = known_hits.get(key, 0) + 1
            known_text[key] = f.get("text", "")
        else:
            new_violations.append(v)
    for key, n in known_hits.items():
        print(f"KNOWN-FINDING: property={prop} {known_text[key]} [{n} occurrence(s) in this run]")
    seen_paths = set()
    for v in new_violations[:25]:
        path = write_replay(prop, v)
        if path in seen_paths:
            continue
        seen_paths.add(path)
        print(f"VIOLATION property={prop} replay={path}")
        print(f"  {v.what}")
    if len(new_violations) > 25:
        print(f"  ... and {len(new_violations) - 25} more violations (not written)")

    distinct = len(stats.outcomes) or int(stats.notes.get('distinct_states', 0))
    coverage: Dict[str, Any] = {
        "states": max(stats.states, 0),
        "transitions": stats.transitions,
        "traces_validated_against_impl": stats.executions,
        "samples": jsonable(stats.samples) or [{"note": "no sample recorded"}],
        "evaluations": stats.executions,
        "distinct_nontrivial": distinct,
        "distinct_observed_outcomes": distinct,
        "rule": rule,
        "exhaustive": bool(stats.exhaustive and not stats.caps),
        "bounds": jsonable(bounds),
        "caps_hit": stats.caps,
        "technique": technique,
        "explanation": "every explored execution is an execution of the real implementation (/repo working tree) "
                       "under the virtual loop/link/clock; there is no separate model whose traces need replay, so "
                       "traces_validated_against_impl equals the number of executions",
        "workers": NPROC,
        "python_hash_seed": os.environ.get("PYTHONHASHSEED"),
        "known_findings_seen": known_hits,
        "notes": jsonable(stats.notes),
    }
    if 0 < len(stats.outcomes) <= 80:
        coverage["outcome_classes"] = dict(sorted(stats.outcomes.items()))
    if coverage["states"] < 1:
        coverage["states"] = max(distinct, 1)
    ev = {
        "property_id": prop,
        "tier": tier,
        "seed": seed,
        "level": "model_checking",
        "coverage": coverage,
        "assumptions": assumptions,
        "wall_s": round(time.time() - t0, 3),
        "violations": len(new_violations),
        "repo": REPO,
    }
    os.makedirs(EVIDENCE_DIR, exist_ok=True)
    path = os.path.join(EVIDENCE_DIR, f"{prop}.json")
    with open(path, "w") as f:
        json.dump(ev, f, indent=1, sort_keys=True)
    err = validate_evidence(path)
    if err:
        print(f"HARNESS-ERROR: evidence file does not validate: {err}")
        return 2
    print(f"{prop} tier={tier} executions={stats.executions} states={coverage['states']} "
          f"transitions={stats.transitions} distinct_outcomes={distinct} exhaustive={coverage['exhaustive']} "
          f"violations={len(new_violations)} known={sum(known_hits.values())} wall={ev['wall_s']}s")
    for c in stats.caps:
        print(f"  cap: {c}")
    if stats.executions > 50 and distinct < 2:
        print("HARNESS-ERROR: vacuous exploration (one observed outcome)")
        return 2
    return 1 if new_violations else 0
