"""Explorers: E1 deviation-bounded schedule DFS / full products, E2 BFS over histories with canonical
state de-duplication, E3 bounded-exhaustive input enumeration; a fork-based process pool; replay.

All of them run the real implementation; what they return are plain counters and violation records.
"""
from __future__ import annotations

import hashlib
import itertools
import json
import multiprocessing as mp
import os
import resource
import signal
import time
from typing import Any, Callable, Dict, Iterable, Iterator, List, Optional, Sequence, Tuple

from .wire import Reject
from .world import HarnessError

NPROC = max(1, min(16, os.cpu_count() or 1))
if os.environ.get("VERIF_NPROC"):
    NPROC = max(1, int(os.environ["VERIF_NPROC"]))


def digest(obj: Any) -> str:
    return hashlib.sha256(repr(obj).encode("utf-8", "backslashreplace")).hexdigest()[:16]


# --------------------------------------------------------------------------------------------------
# Choice points
# --------------------------------------------------------------------------------------------------


class Chooser:
    """Replays a prefix of choices, then takes the default (0) at every later point."""

    def __init__(self, prefix: Sequence[int] = (), expect: Optional[Sequence[Tuple[int, str]]] = None) -> None:
        self.prefix = list(prefix)
        self.expect = expect  # (arity, label) per point seen when the prefix was recorded
        self.log: List[Tuple[int, str, int]] = []

    def choose(self, n: int, label: str = "") -> int:
        i = len(self.log)
        c = self.prefix[i] if i < len(self.prefix) else 0
        if c >= n:
            raise HarnessError(f"replay divergence at point {i}: choice {c} but arity {n} ({label})")
        if self.expect is not None and i < len(self.expect) and i < len(self.prefix):
            en, el = self.expect[i]
            if en != n or el != label:
                raise HarnessError(f"replay divergence at point {i}: expected {el}/{en}, got {label}/{n}")
        self.log.append((n, label, c))
        return c

    def choices(self) -> List[int]:
        return [c for _, _, c in self.log]

    def deviations(self) -> int:
        return sum(1 for _, _, c in self.log if c)


# --------------------------------------------------------------------------------------------------
# Watchdog: the code under test may not terminate
# --------------------------------------------------------------------------------------------------

WATCHDOG_S = float(os.environ.get("VERIF_WATCHDOG_S", "20"))
# shared by the workers of one check run (fork): once this many executions have hit the watchdog the verdict is in - the
# remaining executions are not started any more (each would cost another WATCHDOG_S), the run is reported as cut short
WATCHDOG_MAX_HITS = 12
_WATCHDOG_HITS = mp.Value("i", 0)
WORKER_MEM_BYTES = int(float(os.environ.get("VERIF_WORKER_MEM_GB", "6")) * (1 << 30))


class WatchdogTimeout(BaseException):
    """One execution ran for longer than WATCHDOG_S of real time: the code under test loops (executions take milliseconds).
    A BaseException, so that neither the library's nor the harness' `except Exception` clauses swallow it."""


def _on_alarm(signum: int, frame: Any) -> None:
    raise WatchdogTimeout(f"one execution did not finish within {WATCHDOG_S:.0f} s of real time")


class watchdog:
    """`with watchdog():` around ONE execution of the code under test (main thread of the process only).  A library call that
    never returns - a decoder spinning on a crafted record, a message builder that never runs out of records - would otherwise
    hang the whole check; it is reported as a violation of the property being checked instead.  Runaway allocation is stopped by
    the address-space limit of the worker (MemoryError), which the same handlers report."""

    def __enter__(self) -> "watchdog":
        if _WATCHDOG_HITS.value >= WATCHDOG_MAX_HITS:
            raise WatchdogTimeout(f"not started: {WATCHDOG_MAX_HITS} executions of this run already failed to terminate")
        signal.signal(signal.SIGALRM, _on_alarm)
        signal.setitimer(signal.ITIMER_REAL, WATCHDOG_S)
        return self

    def __exit__(self, *exc: Any) -> None:
        signal.setitimer(signal.ITIMER_REAL, 0)
        if exc and exc[0] is not None and issubclass(exc[0], (WatchdogTimeout, MemoryError)):
            with _WATCHDOG_HITS.get_lock():
                _WATCHDOG_HITS.value += 1


def watchdog_cut_short() -> bool:
    return _WATCHDOG_HITS.value >= WATCHDOG_MAX_HITS


def guarded_problem(fn: Callable[[Any], Tuple[Optional[str], str]]) -> Callable[[Any], Tuple[Optional[str], str]]:
    """For task functions that return (problem-or-None, outcome class): the same with the watchdog around them."""
    def g(item: Any) -> Tuple[Optional[str], str]:
        try:
            with watchdog():
                return fn(item)
        except (WatchdogTimeout, MemoryError) as exc:
            what = "does not terminate" if isinstance(exc, WatchdogTimeout) else "allocates without bound"
            return f"nonterminating: the code under test {what} ({exc})", "nonterminating"
    return g


def nonterminating(where: str, exc: BaseException) -> Dict[str, Any]:
    what = "does not terminate" if isinstance(exc, WatchdogTimeout) else "allocates without bound"
    return {"what": f"{where}: the code under test {what} ({exc})",
            "replay": {"problems": [f"nonterminating: {type(exc).__name__}: {exc}"]}, "signature": {"check": "nonterminating"}}


# --------------------------------------------------------------------------------------------------
# Pool
# --------------------------------------------------------------------------------------------------

_TASK: Optional[Callable[[Any], Any]] = None


def _worker_init() -> None:
    # everything inherited from the parent (frontier lists, seen sets) is immortal in the worker: the per-execution
    # gc.collect() then only looks at what the execution itself allocated
    import gc
    gc.freeze()
    try:
        soft, hard = resource.getrlimit(resource.RLIMIT_AS)
        resource.setrlimit(resource.RLIMIT_AS, (WORKER_MEM_BYTES, hard))
    except (ValueError, OSError):
        pass


def _call(arg: Any) -> Any:
    assert _TASK is not None
    return _TASK(arg)


def _call_many(args: List[Any]) -> List[Any]:
    assert _TASK is not None
    return [_TASK(a) for a in args]


class WorkerDied(Exception):
    """A pool worker disappeared (killed for memory, or crashed the interpreter) while executing the code under test.
    multiprocessing.Pool replaces such a worker silently and waits for the lost task for ever; this is raised instead."""


def _pids(pool: Any) -> frozenset:
    return frozenset(p.pid for p in getattr(pool, "_pool", []))


def pmap(fn: Callable[[Any], Any], items: Sequence[Any], chunk: Optional[int] = None, nproc: Optional[int] = None
         ) -> List[Any]:
    """Deterministic parallel map (results in input order) over a fork pool; `fn` may be a closure."""
    global _TASK
    n = nproc or NPROC
    items = list(items)
    if n <= 1 or len(items) < 2 * n:
        return [fn(x) for x in items]
    _TASK = fn
    try:
        ctx = mp.get_context("fork")
        if chunk is None:
            chunk = max(1, min(2000, len(items) // (n * 8)))
        with ctx.Pool(n, initializer=_worker_init) as pool:
            born = _pids(pool)
            res = pool.map_async(_call, items, chunksize=chunk)
            while True:
                try:
                    return res.get(timeout=5)
                except mp.TimeoutError:
                    if _pids(pool) != born:
                        raise WorkerDied("a worker process died while executing the code under test") from None
    finally:
        _TASK = None


def pmap_iter(fn: Callable[[Any], Any], items: Iterable[Any], chunk: int = 256, nproc: Optional[int] = None
              ) -> Iterator[Any]:
    """Like pmap but streaming (for spaces too large to hold as a list); order preserved."""
    global _TASK
    n = nproc or NPROC
    if n <= 1:
        for x in items:
            yield fn(x)
        return
    _TASK = fn
    try:
        ctx = mp.get_context("fork")
        with ctx.Pool(n, initializer=_worker_init) as pool:
            born = _pids(pool)

            def grouped() -> Iterator[List[Any]]:
                src = iter(items)
                while True:
                    g = list(itertools.islice(src, chunk))
                    if not g:
                        return
                    yield g

            it = pool.imap(_call_many, grouped(), chunksize=1)  # (chunksize 1: only then imap returns an iterator with a timeout)
            while True:
                try:
                    rs = it.next(timeout=5)
                except StopIteration:
                    return
                except mp.TimeoutError:
                    if _pids(pool) != born:
                        raise WorkerDied("a worker process died while executing the code under test") from None
                    continue
                yield from rs
    finally:
        _TASK = None


def malformed_output(where: str, exc: Exception) -> Dict[str, Any]:
    """The oracles read the network trace through the independent decoder.  Every datagram the harness itself injects is
    well-formed, so a `wire.Reject` that escapes from an execution means that the instance under test transmitted a datagram
    an RFC 1035 decoder cannot parse - which no property about 'the datagrams sent' can survive.  It is reported as a
    violation of the property being checked instead of crashing the explorer."""
    return {"what": f"{where}: the instance transmitted a datagram that the independent RFC 1035 decoder rejects ({exc})",
            "replay": {"problems": [f"malformed-output: {exc}"]}, "signature": {"check": "malformed-output"}}


# --------------------------------------------------------------------------------------------------
# Result bookkeeping
# --------------------------------------------------------------------------------------------------


class Violation:
    def __init__(self, what: str, replay: Dict[str, Any], signature: Optional[Dict[str, Any]] = None) -> None:
        self.what = what  # one-line description
        self.replay = replay  # JSON-serialisable: everything needed to re-execute this one case
        self.signature = signature or {}  # matched against known_findings.json

    def to_json(self) -> Dict[str, Any]:
        return {"what": self.what, "replay": self.replay, "signature": self.signature}


class Stats:
    """Counters merged from workers into the evidence."""

    def __init__(self) -> None:
        self.executions = 0
        self.transitions = 0
        self.states = 0
        self.outcomes: Dict[str, int] = {}
        self.samples: List[Any] = []
        self.violations: List[Violation] = []
        self._kept: Dict[str, int] = {}
        self.notes: Dict[str, Any] = {}
        self.caps: List[str] = []
        self.exhaustive = True

    def room(self, signature: Optional[Dict[str, Any]], cap: int = 200) -> bool:
        """Violations are kept up to `cap` *per signature*: occurrences of one (possibly known) finding must never use up
        the room for a different one."""
        k = repr(sorted((signature or {}).items()))
        n = self._kept.get(k, 0)
        if n >= cap:
            return False
        self._kept[k] = n + 1
        return True

    def outcome(self, key: str, n: int = 1) -> None:
        self.outcomes[key] = self.outcomes.get(key, 0) + n

    def sample(self, s: Any, limit: int = 6) -> None:
        if len(self.samples) < limit:
            self.samples.append(s)

    def merge(self, other: "Stats") -> None:
        self.executions += other.executions
        self.transitions += other.transitions
        self.states += other.states
        for k, v in other.outcomes.items():
            self.outcome(k, v)
        for s in other.samples:
            self.sample(s)
        self.violations.extend(other.violations)
        self.caps.extend(other.caps)
        self.exhaustive = self.exhaustive and other.exhaustive
        for k, v in other.notes.items():
            if isinstance(v, (int, float)) and isinstance(self.notes.get(k), (int, float)):
                self.notes[k] += v
            else:
                self.notes.setdefault(k, v)


# --------------------------------------------------------------------------------------------------
# E1: schedule exploration with a deviation bound
# --------------------------------------------------------------------------------------------------

# run(chooser) -> (verdict, observation_digest, transitions) where verdict is None or a Violation-like dict
RunFn = Callable[[Chooser], Tuple[Optional[Dict[str, Any]], str, int]]


def explore_deviations(run: RunFn, bound: int, stats: Stats, scenario: str, max_execs: Optional[int] = None,
                       sample_every: int = 0) -> int:
    """Iterative deviation bounding: all executions with 0, then <=1, ... <=bound non-default choices.

    Level k+1 prefixes are derived from the choice logs of level k executions, each level runs in
    parallel.  Returns the bound that was completed.
    """

    def task(prefix_expect: Tuple[List[int], Optional[List[Tuple[int, str]]]]) -> Tuple[Any, ...]:
        prefix, expect = prefix_expect
        ch = Chooser(prefix, expect)
        try:
            with watchdog():
                verdict, obs, trans = run(ch)
        except Reject as exc:
            return (malformed_output(scenario, exc), "malformed-output", 1, [(n, l) for n, l, _ in ch.log], ch.choices())
        except (WatchdogTimeout, MemoryError) as exc:
            return (nonterminating(scenario, exc), "nonterminating", 1, [(n, l) for n, l, _ in ch.log], ch.choices())
        if verdict is not None:
            # re-run once: a verdict that does not reproduce is a harness problem, not a violation
            ch2 = Chooser(ch.choices(), [(n, l) for n, l, _ in ch.log])
            try:
                with watchdog():
                    verdict2, obs2, _ = run(ch2)
            except (WatchdogTimeout, MemoryError):
                verdict2, obs2 = verdict, obs
            if (verdict2 is None) or obs2 != obs:
                raise HarnessError(f"{scenario}: verdict not reproducible for choices {ch.choices()}")
        return (verdict, obs, trans, [(n, l) for n, l, _ in ch.log], ch.choices())

    level: List[Tuple[List[int], Optional[List[Tuple[int, str]]]]] = [([], None)]
    completed = -1
    for k in range(bound + 1):
        if not level:
            completed = bound
            break
        if max_execs is not None and stats.executions + len(level) > max_execs:
            stats.caps.append(f"{scenario}: execution cap {max_execs} hit before deviation bound {k} "
                              f"(level would add {len(level)} executions); bound {k - 1} is complete")
            stats.exhaustive = False
            break
        results = pmap(task, level)
        nxt: List[Tuple[List[int], Optional[List[Tuple[int, str]]]]] = []
        for (prefix, _), (verdict, obs, trans, points, choices) in zip(level, results):
            stats.executions += 1
            stats.transitions += trans
            stats.outcome(obs)
            if len(stats.samples) < 4:
                stats.sample({"scenario": scenario, "choices": choices,
                              "labels": [l for (_, l), c in zip(points, choices) if c]})
            if verdict is not None:
                stats.violations.append(Violation(verdict["what"], dict(verdict.get("replay", {}), scenario=scenario,
                                                                        choices=choices),
                                                  verdict.get("signature")))
            if k < bound:
                for i in range(len(prefix), len(points)):
                    n = points[i][0]
                    for alt in range(1, n):
                        nxt.append((choices[:i] + [alt], points[: i + 1]))
        completed = k
        level = nxt
    return completed


def explore_product(run_point: Callable[[Any], Tuple[Optional[Dict[str, Any]], str, int]], points: Sequence[Any],
                    stats: Stats, scenario: str) -> None:
    """Full Cartesian grid: run every point; `points` items must be JSON-serialisable."""
    def guarded_point(p: Any) -> Tuple[Optional[Dict[str, Any]], str, int]:
        try:
            with watchdog():
                return run_point(p)
        except Reject as exc:
            return malformed_output(f"{scenario} {p}", exc), "malformed-output", 1
        except (WatchdogTimeout, MemoryError) as exc:
            return nonterminating(f"{scenario} {p}", exc), "nonterminating", 1
        except HarnessError:
            raise
        except Exception as exc:  # noqa: BLE001 - (exceptions may hold unpicklable library objects: carry text across the pool)
            import traceback
            raise HarnessError(f"{scenario} {p}: unexpected {type(exc).__name__}: {exc}\n{traceback.format_exc()[-1500:]}") from None

    results = pmap(guarded_point, points)
    for p, (verdict, obs, trans) in zip(points, results):
        stats.executions += 1
        stats.transitions += trans
        stats.outcome(obs)
        if verdict is not None:
            stats.violations.append(Violation(verdict["what"], dict(verdict.get("replay", {}), scenario=scenario,
                                                                    point=p), verdict.get("signature")))
    for p in list(points)[:2] + list(points)[-1:]:
        stats.sample({"scenario": scenario, "point": p})


# --------------------------------------------------------------------------------------------------
# E2: BFS over event histories with canonical-state de-duplication
# --------------------------------------------------------------------------------------------------

# step(history) -> (violation-or-None, canonical_state, transitions_executed)
StepFn = Callable[[Tuple[Any, ...]], Tuple[Optional[Dict[str, Any]], Any, int]]


def bfs_histories(step: StepFn, alphabet: Sequence[Any], depth: int, stats: Stats, scenario: str,
                  dedup: bool = True, enabled: Optional[Callable[[Tuple[Any, ...], Any], bool]] = None,
                  max_states: Optional[int] = None, level_log: Optional[List[Dict[str, int]]] = None,
                  state_oracle: Optional[Callable[[Tuple[Any, ...]], Tuple[Optional[Dict[str, Any]], int]]] = None
                  ) -> Dict[int, set]:
    """Level-synchronous BFS.  A state is the (shortest, first in alphabet order) history reaching it.

    `step(hist)` replays `hist` on a fresh world, checks the oracle after the last event (earlier
    prefixes were checked when they were the frontier) and returns the canonical form of the state.
    Returns {level: set of canonical digests} for the abstraction self-check.
    """
    def guarded_step(h: Tuple[Any, ...]) -> Tuple[Optional[Dict[str, Any]], Any, int]:
        try:
            with watchdog():
                return step(h)
        except Reject as exc:
            return malformed_output(f"{scenario} after {list(h)}", exc), ("malformed-output", h), len(h)
        except (WatchdogTimeout, MemoryError) as exc:
            return nonterminating(f"{scenario} after {list(h)}", exc), ("nonterminating", h), len(h)

    seen: set = set()
    per_level: Dict[int, set] = {}
    frontier: List[Tuple[Any, ...]] = [()]
    root = guarded_step(())
    if root[0] is not None:
        stats.violations.append(Violation(root[0]["what"], dict(root[0].get("replay", {}), scenario=scenario,
                                                                history=[]), root[0].get("signature")))
    seen.add(digest(root[1]))
    if state_oracle is not None:
        v0, ev0 = state_oracle(())
        stats.transitions += ev0
        if v0 is not None:
            stats.violations.append(Violation(v0["what"], dict(v0.get("replay", {}), scenario=scenario, history=[]),
                                              v0.get("signature")))
    stats.states += 1
    stats.executions += 1
    states_before = stats.states  # (the cap below is about THIS search; `stats` may carry earlier searches of the same check)
    for lvl in range(1, depth + 1):
        cands = [h + (ev,) for h in frontier for ev in alphabet if enabled is None or enabled(h, ev)]
        if not cands:
            break
        results = pmap(guarded_step, cands)
        nxt: List[Tuple[Any, ...]] = []
        lvl_set: set = set()
        viol_here = 0
        for h, (verdict, canon, trans) in zip(cands, results):
            stats.executions += 1
            stats.transitions += trans
            d = digest(canon)
            lvl_set.add(d)
            if isinstance(canon, tuple) and canon and canon[0] == "fallback":
                # the library's private layout is not the one the precise canonical form knows (mc/introspect.py)
                stats.notes["canonical_form_fallbacks"] = stats.notes.get("canonical_form_fallbacks", 0) + 1
            if verdict is not None:
                viol_here += 1
                stats.violations.append(Violation(verdict["what"], dict(verdict.get("replay", {}), scenario=scenario,
                                                                        history=list(h)), verdict.get("signature")))
                continue  # do not extend a history that already violates
            if dedup:
                if d in seen:
                    continue
                seen.add(d)
            nxt.append(h)
        if state_oracle is not None and nxt:
            # state-based oracle: evaluated once per *new* canonical state (one representative history)
            keep = []
            for h, (verdict, evals) in zip(nxt, pmap(state_oracle, nxt)):
                stats.transitions += evals
                stats.notes["oracle_evaluations"] = stats.notes.get("oracle_evaluations", 0) + evals
                if verdict is not None:
                    viol_here += 1
                    stats.violations.append(Violation(verdict["what"], dict(verdict.get("replay", {}),
                                                                            scenario=scenario, history=list(h)),
                                                      verdict.get("signature")))
                else:
                    keep.append(h)
            nxt = keep
        stats.states += len(nxt) if dedup else len(lvl_set)
        per_level[lvl] = lvl_set
        if level_log is not None:
            level_log.append({"level": lvl, "candidates": len(cands), "new_states": len(nxt),
                              "violations": viol_here})
        for h in nxt[:1] + nxt[-1:]:
            stats.sample({"scenario": scenario, "history": list(h)}, limit=8)
        frontier = nxt
        stats.notes["distinct_states"] = len(seen) if dedup else sum(len(v) for v in per_level.values())
        if max_states is not None and stats.states - states_before > max_states and lvl < depth:
            stats.caps.append(f"{scenario}: state cap {max_states} hit after level {lvl}; levels <= {lvl} complete")
            stats.exhaustive = False
            break
    return per_level


# --------------------------------------------------------------------------------------------------
# E3: bounded-exhaustive inputs
# --------------------------------------------------------------------------------------------------


STOP_AFTER_VIOLATION_S = float(os.environ.get("VERIF_STOP_AFTER_VIOLATION_S", "90"))


def enumerate_inputs(check: Callable[[Any], Tuple[Optional[Dict[str, Any]], str]], inputs: Iterable[Any],
                     stats: Stats, scenario: str, chunk: int = 512, total_hint: Optional[int] = None,
                     keep_outcomes: bool = True, tolerated: Sequence[str] = ()) -> None:
    """check(x) -> (violation-or-None, outcome_class).  Inputs are streamed through the pool in batches.

    Once a violation has been found (other than the `tolerated` signature classes - open known findings) the enumeration goes
    on for at most STOP_AFTER_VIOLATION_S seconds: a change that makes the code under test slow on many inputs must not turn a
    failing check into one that never reports.  The cut is recorded (caps, exhaustive = False)."""
    if stats.notes.get("stopped_after_violation"):
        return
    first_bad: Optional[float] = None

    def batch(xs: List[Any]) -> Tuple[int, Dict[str, int], List[Tuple[Any, Dict[str, Any]]]]:
        out: Dict[str, int] = {}
        bad: List[Tuple[Any, Dict[str, Any]]] = []
        t_bad: Optional[float] = None
        done = 0
        for x in xs:
            if t_bad is not None and time.time() - t_bad > 15:
                break  # this batch has produced its violations; what is left of it would only cost time (see above)
            done += 1
            try:
                with watchdog():
                    v, oc = check(x)
            except (WatchdogTimeout, MemoryError) as exc:
                v, oc = nonterminating(f"{scenario} input {repr(x)[:300]}", exc), "nonterminating"
            out[oc] = out.get(oc, 0) + 1
            if v is not None:
                if t_bad is None and (v.get("signature") or {}).get("check") not in tolerated:
                    t_bad = time.time()
                if len(bad) < 20:
                    bad.append((x, v))
        return done, out, bad

    def batches() -> Iterator[List[Any]]:
        it = iter(inputs)
        while True:
            b = list(itertools.islice(it, chunk))
            if not b:
                return
            yield b

    first = True
    for n, out, bad in pmap_iter(batch, batches(), chunk=1):
        stats.executions += n
        stats.transitions += n
        for k, v in out.items():
            stats.outcome(f"{scenario}:{k}" if keep_outcomes else scenario, v)
        for x, v in bad:
            if first_bad is None and (v.get("signature") or {}).get("check") not in tolerated:
                first_bad = time.time()
            if stats.room(v.get("signature")):
                rp = dict(v.get("replay", {}), scenario=scenario)
                if "case" not in rp:
                    rp["input"] = x
                stats.violations.append(Violation(v["what"], rp, v.get("signature")))
        first = False
        if first_bad is not None and time.time() - first_bad > STOP_AFTER_VIOLATION_S:
            stats.caps.append(f"{scenario}: stopped {STOP_AFTER_VIOLATION_S:.0f} s after the first violation "
                              f"({stats.executions} inputs evaluated so far)")
            stats.exhaustive = False
            stats.notes["stopped_after_violation"] = True
            break


def jsonable(x: Any) -> Any:
    """Best-effort conversion of harness values (bytes, tuples, sets) to JSON."""
    if isinstance(x, (bytes, bytearray)):
        return {"hex": bytes(x).hex()}
    if isinstance(x, dict):
        return {str(k): jsonable(v) for k, v in x.items()}
    if isinstance(x, (list, tuple)):
        return [jsonable(v) for v in x]
    if isinstance(x, (set, frozenset)):
        return sorted((jsonable(v) for v in x), key=repr)
    if isinstance(x, (str, int, float, bool)) or x is None:
        return x
    return repr(x)


def unjson(x: Any) -> Any:
    """Inverse of jsonable for the shapes replay files use (lists become tuples, {'hex':..} bytes)."""
    if isinstance(x, dict):
        if set(x) == {"hex"}:
            return bytes.fromhex(x["hex"])
        return {k: unjson(v) for k, v in x.items()}
    if isinstance(x, list):
        return tuple(unjson(v) for v in x)
    return x
