"""Fallback canonical forms for library objects whose private layout the hand-written canonical state does not know.

The E2 searches de-duplicate histories by a hand-written canonical state that reads a few private attributes of the
library (the browser's query heap, the question history, the registry's indexes).  A harmless refactor that renames or
reshapes one of them must not make a check crash: `guarded(precise, fallback_objects, now)` then falls back to
a fallback chosen by the caller: `generic_canon` (a structural walk over `__dict__`/`__slots__`, used where the state holds no
absolute times - the registry), or a token unique to the history (no de-duplication at all: the whole history tree is
explored, sound by construction, only slower).  A fallback is never coarser than the precise form, so it costs time but
never merges states with different futures.  FALLBACKS counts how often one was used (reported in the evidence notes).
"""
from __future__ import annotations

import asyncio
from typing import Any, Callable, Tuple

FALLBACKS = {"n": 0, "why": ""}
_SKIP_TYPES: Tuple[type, ...] = ()


def _skip_types() -> Tuple[type, ...]:
    global _SKIP_TYPES
    if not _SKIP_TYPES:
        import logging
        import threading

        from zeroconf import Zeroconf

        _SKIP_TYPES = (Zeroconf, asyncio.AbstractEventLoop, logging.Logger, type(threading.Lock()), type(threading.RLock()),
                       threading.Event, threading.Thread)
    return _SKIP_TYPES


def generic_canon(obj: Any, now_ms: float, depth: int = 5, _seen: Any = None) -> Any:
    if _seen is None:
        _seen = set()
    if obj is None or isinstance(obj, (bool, str, bytes)):
        return obj
    if isinstance(obj, int):
        return _rel(obj, now_ms)
    if isinstance(obj, float):
        return _rel(obj, now_ms)
    if isinstance(obj, (asyncio.TimerHandle,)):
        return ("timer", round(obj.when() * 1000 - now_ms, 3), obj.cancelled())
    if isinstance(obj, asyncio.Handle):
        return ("handle", obj.cancelled())
    if isinstance(obj, asyncio.Future):
        return ("future", obj.done())
    if isinstance(obj, _skip_types()) or depth <= 0:
        return type(obj).__name__
    if id(obj) in _seen:
        return ("cycle", type(obj).__name__)
    _seen = _seen | {id(obj)}
    if isinstance(obj, dict):
        items = [(generic_canon(k, now_ms, depth - 1, _seen), generic_canon(v, now_ms, depth - 1, _seen)) for k, v in obj.items()]
        return ("dict", sorted(items, key=repr))
    if isinstance(obj, (list, tuple)):
        return [generic_canon(x, now_ms, depth - 1, _seen) for x in obj]
    if isinstance(obj, (set, frozenset)):
        return ("set", sorted((generic_canon(x, now_ms, depth - 1, _seen) for x in obj), key=repr))
    if callable(obj) and not hasattr(obj, "__dict__"):
        return getattr(obj, "__qualname__", type(obj).__name__)
    names = []
    for klass in type(obj).__mro__:
        names.extend(getattr(klass, "__slots__", ()) or ())
    names.extend(getattr(obj, "__dict__", {}).keys())
    out = []
    for n in sorted(set(names)):
        if n in ("__weakref__", "__dict__"):
            continue
        try:
            v = getattr(obj, n)
        except AttributeError:
            continue
        if callable(v) and not isinstance(v, (asyncio.Handle, asyncio.Future)):
            continue
        out.append((n, generic_canon(v, now_ms, depth - 1, _seen)))
    if not out and hasattr(obj, "__iter__"):
        try:
            return (type(obj).__name__, sorted((generic_canon(x, now_ms, depth - 1, _seen) for x in obj), key=repr))
        except TypeError:
            pass
    return (type(obj).__name__, out)


def _rel(x: float, now_ms: float) -> Any:
    # numbers are kept as they are: a duration and an instant cannot be told apart generically, and making a duration
    # relative could merge states that differ (only asyncio timer handles, which are instants for sure, are relative)
    return x


def guarded(precise: Callable[[], Any], fallback: Callable[[], Any]) -> Any:
    """The precise canonical form, or - when the library's private layout is not what it expects - the fallback."""
    try:
        return precise()
    except (AttributeError, TypeError, KeyError, ValueError) as exc:
        FALLBACKS["n"] += 1
        FALLBACKS["why"] = f"{type(exc).__name__}: {exc}"[:200]
        return ("fallback", fallback())
