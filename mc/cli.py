"""./check <ID> [--tier quick|thorough] [--replay path]"""
from __future__ import annotations

import argparse
import importlib
import json
import os
import sys
import time
import traceback


def main() -> int:
    ap = argparse.ArgumentParser()
    ap.add_argument("prop")
    ap.add_argument("--tier", default=os.environ.get("VERIF_TIER", "quick"), choices=["quick", "thorough"])
    ap.add_argument("--replay")
    args = ap.parse_args()
    prop = args.prop.upper()
    seed = int(os.environ.get("VERIF_SEED", "0") or 0)
    from .world import HarnessError
    from .explore import WorkerDied, unjson
    from .wire import Reject

    try:
        mod = importlib.import_module(f"mc.props.{prop.lower()}")
    except ModuleNotFoundError as e:
        print(f"HARNESS-ERROR: no check for {prop}: {e}")
        return 2
    try:
        if args.replay:
            with open(args.replay) as f:
                body = json.load(f)
            return int(mod.replay(unjson(body["replay"])))
        from .evidence import finish

        t0 = time.time()
        stats, rule, assumptions, bounds = mod.run(args.tier, seed)
        return finish(prop, args.tier, seed, stats, t0, rule, assumptions, bounds, mod.TECHNIQUE)
    except Reject as e:
        # only reachable from --replay (the explorers turn it into a verdict themselves)
        print(f"VIOLATION reproduced: the instance transmitted a datagram that the independent RFC 1035 decoder rejects ({e})")
        return 1
    except WorkerDied as e:
        from .evidence import finish
        from .explore import Stats, Violation
        st = Stats()
        st.executions = 1
        st.exhaustive = False
        st.caps.append("a worker process died (memory exhausted or interpreter crash) while executing the code under test")
        st.violations.append(Violation(f"{prop}: {e} - the code under test exhausts memory or crashes the interpreter",
                                       {"problems": ["worker-died"]}, {"check": "nonterminating"}))
        st.outcome("worker-died")
        st.outcome("none")
        return finish(prop, args.tier, seed, st, time.time(), "run aborted", [], {}, mod.TECHNIQUE)
    except HarnessError as e:
        print(f"HARNESS-ERROR: {e}")
        traceback.print_exc()
        return 2
    except Exception as e:  # noqa: BLE001 - a crash of the machinery is never a verdict about the property
        print(f"HARNESS-ERROR: unexpected {type(e).__name__}: {e}")
        traceback.print_exc()
        return 2


if __name__ == "__main__":
    sys.exit(main())
