"""The virtual world: hand-stepped virtual-time asyncio loop, fake sockets/transports, simulated link,
and the seams (clock, random, sockets, caller thread, listener-set order) applied to `zeroconf` from
outside by rebinding module attributes.  No source hook in /repo is needed.

Time is an integer number of microseconds (`loop.now_us`); `loop.time()` is seconds as float and
`current_time_millis()` is `now_us / 1000` (exact for every instant on the millisecond grid).
"""
from __future__ import annotations

import asyncio
import gc
import heapq
import logging
import random as _real_random
import socket
import sys
import time as _real_time
from asyncio import base_events, events
from typing import Any, Callable, Dict, List, Optional, Tuple

from . import REPO  # noqa: F401  (side effect: sys.path)

START_US = 1_000_000_000  # 1 000 000 ms: the code treats created=0 / now=0 as "unset"
MDNS4 = "224.0.0.251"
MDNS6 = "ff02::fb"

CURRENT: Optional["World"] = None  # the world the process-global seams currently talk to


class HarnessError(Exception):
    """Nondeterminism, replay divergence, un-owned randomness: never a property violation."""


# --------------------------------------------------------------------------------------------------
# Loop
# --------------------------------------------------------------------------------------------------


def _us(when_s: float) -> int:
    return int(round(when_s * 1_000_000))


class VLoop(base_events.BaseEventLoop):
    """An asyncio loop whose clock only moves when the harness says so."""

    def __init__(self, start_us: int = START_US) -> None:
        super().__init__()
        self.now_us = start_us
        self.exceptions: List[dict] = []
        self.set_exception_handler(self._on_exception)
        self.instants: Optional[set] = None  # set() to record every instant at which something ran
        self.handles_run = 0
        # zero-delay loops (a timer re-armed with a non-positive delay) never let a virtual clock advance; in real
        # life each turn costs CPU time, so after SPIN_LIMIT handles at one instant the clock is nudged by 20 ms
        self.spins = 0
        self._instant_us = start_us
        self._runs_at_instant = 0

    # -- clock ---------------------------------------------------------------------------------
    def time(self) -> float:
        return self.now_us / 1_000_000

    def now_ms(self) -> float:
        return self.now_us / 1000

    # -- BaseEventLoop plumbing we do not need -----------------------------------------------
    def _process_events(self, event_list: Any) -> None:  # pragma: no cover
        pass

    def _write_to_self(self) -> None:
        pass

    def is_running(self) -> bool:
        return not self._closed

    def shut(self) -> None:
        """The application's event loop has ended and was closed (asyncio.run returned): nothing runs on it any more and
        call_soon / call_soon_threadsafe raise RuntimeError('Event loop is closed'), as on a real closed loop."""
        self._ready.clear()
        self._scheduled.clear()
        self._closed = True

    def _on_exception(self, loop: Any, context: dict) -> None:
        self.exceptions.append(context)

    def collect_exceptions(self) -> List[str]:
        """Exceptions that reached the loop's handler (incl. never-retrieved task exceptions)."""
        gc.collect()
        out = []
        for ctx in self.exceptions:
            exc = ctx.get("exception")
            out.append(f"{ctx.get('message')}: {exc!r}")
        return out

    # -- datagram endpoints go to the simulated link ------------------------------------------
    async def create_datagram_endpoint(self, protocol_factory, local_addr=None, remote_addr=None, *,  # type: ignore[override]
                                       sock=None, **kw):
        protocol = protocol_factory()
        world = CURRENT
        assert world is not None
        transport = FakeTransport(self, sock, protocol, world.net)
        world.net.attach(transport)
        self.call_soon(protocol.connection_made, transport)
        await asyncio.sleep(0)
        return transport, protocol

    # -- manual stepping -----------------------------------------------------------------------
    def run_ready(self) -> int:
        n = 0
        ready = self._ready
        while ready:
            h = ready.popleft()
            if not h._cancelled:
                if self.instants is not None:
                    self.instants.add(self.now_us)
                h._run()
                n += 1
                if self.now_us != self._instant_us:
                    self._instant_us, self._runs_at_instant = self.now_us, 0
                self._runs_at_instant += 1
                if self._runs_at_instant > self.SPIN_LIMIT:
                    self.now_us += 20_000
                    self.spins += 1
                    if self.spins > 200_000:
                        raise HarnessError("the code under test spins without ever blocking")
        self.handles_run += n
        return n

    SPIN_LIMIT = 500

    def run_iteration(self) -> int:
        """One loop iteration: only the handles that are ready right now (what they schedule waits for the next)."""
        n = 0
        for _ in range(len(self._ready)):
            h = self._ready.popleft()
            if not h._cancelled:
                h._run()
                n += 1
        self.handles_run += n
        return n

    def step(self) -> bool:
        """One loop iteration: the handles that are ready now, or - if none is - the timers due at the next timer instant.
        False when nothing is left to do."""
        if not self._ready:
            nt = self.next_timer_us()
            if nt is None:
                return False
            if nt > self.now_us:
                self.now_us = nt
            sched = self._scheduled
            while sched and (sched[0]._cancelled or _us(sched[0]._when) <= self.now_us):
                h = heapq.heappop(sched)
                h._scheduled = False
                if not h._cancelled:
                    self._ready.append(h)
        self.run_iteration()
        return True

    def run_once(self) -> int:
        """One iteration the way asyncio's _run_once does it: timers that are due by now join the handles that are already
        ready (behind them), and exactly that batch runs - used after the clock was moved without the loop running (an
        application that blocked the loop thread for a while)."""
        sched = self._scheduled
        while sched and (sched[0]._cancelled or _us(sched[0]._when) <= self.now_us):
            h = heapq.heappop(sched)
            h._scheduled = False
            if not h._cancelled:
                self._ready.append(h)
        return self.run_iteration()

    def next_timer_us(self) -> Optional[int]:
        sched = self._scheduled
        while sched and sched[0]._cancelled:
            heapq.heappop(sched)._scheduled = False
        return _us(sched[0]._when) if sched else None

    def advance_to(self, target_us: int) -> None:
        """Run everything due up to and including virtual time `target_us` (microseconds)."""
        self.run_ready()
        sched = self._scheduled
        while True:
            nt = self.next_timer_us()
            if nt is None or nt > target_us:
                break
            if nt > self.now_us:
                self.now_us = nt
            while sched and (sched[0]._cancelled or _us(sched[0]._when) <= self.now_us):
                h = heapq.heappop(sched)
                h._scheduled = False
                if not h._cancelled:
                    self._ready.append(h)
            self.run_ready()
        if target_us > self.now_us:
            self.now_us = target_us

    def advance(self, delta_ms: float) -> None:
        self.advance_to(self.now_us + int(round(delta_ms * 1000)))

    def drive(self, coro, timeout_ms: Optional[float] = None, loaded_s: float = 10.0) -> Any:
        """Caller-thread seam: run `coro` to completion from *outside* the loop.

        Mirrors `run_coro_with_timeout`: the caller has no running loop; the loop is pumped (virtual
        time advancing) until the coroutine is done; EventLoopBlocked after timeout + loaded_s.
        """
        from zeroconf._exceptions import EventLoopBlocked

        prev = events._get_running_loop()
        events._set_running_loop(self)
        try:
            task = self.create_task(coro)
            deadline = None if timeout_ms is None else self.now_us + int(timeout_ms * 1000 + loaded_s * 1e6)
            while True:
                self.run_ready()
                if task.done():
                    return task.result()
                nt = self.next_timer_us()
                if nt is None:
                    raise HarnessError("drive(): coroutine blocked forever (no timers left)")
                if deadline is not None and nt > deadline:
                    self.advance_to(deadline)
                    raise EventLoopBlocked
                self.advance_to(nt)
        finally:
            events._set_running_loop(prev)


# --------------------------------------------------------------------------------------------------
# Sockets, transports, link
# --------------------------------------------------------------------------------------------------


class FakeSock:
    def __init__(self, host: "Host", idx: int, ip: str, family: int, role: str) -> None:
        self.host = host
        self.idx = idx
        self.ip = ip
        self.family = family
        self.role = role  # 'listen' | 'respond'

    def fileno(self) -> int:
        return 100 + self.idx

    def getsockname(self) -> tuple:
        if self.family == socket.AF_INET6:
            return (self.ip, 5353, 0, self.host.scope_id)
        return (self.ip, 5353)

    def close(self) -> None:
        pass

    def __repr__(self) -> str:
        return f"<FakeSock {self.host.name}/{self.role}/{self.ip}>"


class FakeTransport(asyncio.DatagramTransport):
    def __init__(self, loop: VLoop, sock: FakeSock, protocol: Any, net: "SimNet") -> None:
        super().__init__(extra={"socket": sock, "sockname": sock.getsockname()})
        self.loop = loop
        self.sock = sock
        self.protocol = protocol
        self.net = net
        self.closed = False
        self.sent_after_close = 0
        # fault injection: `eagain(data) -> bool` says that the kernel's send buffer is full for this datagram (sendto
        # raises BlockingIOError inside asyncio): the transport then keeps it in its own write buffer and hands it over
        # when the socket is writable again (next loop iteration).  close() still delivers what is buffered before the
        # socket goes away; abort() throws it away - exactly the difference between the two in asyncio.
        self.eagain: Optional[Callable[[bytes], bool]] = None
        self._buffer: List[Tuple[bytes, Any]] = []
        self.dropped: List[bytes] = []

    def sendto(self, data: bytes, addr: Any = None) -> None:
        if self.closed:
            self.sent_after_close += 1
            return
        data = bytes(data)
        if self._buffer or (self.eagain is not None and self.eagain(data)):
            if not self._buffer:
                self.loop.call_soon(self._flush)
            self._buffer.append((data, addr))
            return
        self.net.sent(self, data, addr)

    def _flush(self) -> None:
        buf, self._buffer = self._buffer, []
        for data, addr in buf:
            self.net.sent(self, data, addr)

    def close(self) -> None:
        if not self.closed:
            self._flush()
            self.closed = True
            self.loop.call_soon(self._call_connection_lost, None)  # as asyncio's selector datagram transport does

    def abort(self) -> None:
        if not self.closed:
            self.dropped.extend(d for d, _ in self._buffer)
            self._buffer = []
            self.closed = True
            self.loop.call_soon(self._call_connection_lost, None)

    def _call_connection_lost(self, exc: Optional[BaseException]) -> None:
        self.protocol.connection_lost(exc)

    def is_closing(self) -> bool:
        return self.closed


class Host:
    """One simulated machine (one Zeroconf instance)."""

    def __init__(self, world: "World", name: str, ip4: str, ip6: str, mode: str) -> None:
        self.world = world
        self.name = name
        self.ip4 = ip4
        self.ip6 = ip6
        self.mode = mode
        self.scope_id = 3
        self.socks: List[FakeSock] = []
        self.zc: Any = None
        self.azc: Any = None

    def make_socks(self) -> Tuple[Optional[FakeSock], List[FakeSock]]:
        w = self.world
        if self.mode == "single":
            s = FakeSock(self, w.next_sock_idx(), self.ip4, socket.AF_INET, "respond")
            self.socks = [s]
            return None, [s]
        if self.mode == "single6":
            s = FakeSock(self, w.next_sock_idx(), self.ip6, socket.AF_INET6, "respond")
            self.socks = [s]
            return None, [s]
        if self.mode == "dual":
            ls = FakeSock(self, w.next_sock_idx(), "0.0.0.0", socket.AF_INET, "listen")
            r4 = FakeSock(self, w.next_sock_idx(), self.ip4, socket.AF_INET, "respond")
            r6 = FakeSock(self, w.next_sock_idx(), self.ip6, socket.AF_INET6, "respond")
            self.socks = [ls, r4, r6]
            return ls, [r4, r6]
        raise ValueError(self.mode)

    def transports(self) -> List[FakeTransport]:
        return [t for t in self.world.net.transports if t.sock.host is self]

    def protocol_for(self, role: str = "any", family: int = socket.AF_INET) -> Any:
        for t in self.transports():
            if (role == "any" or t.sock.role == role) and t.sock.family == family:
                return t.protocol
        raise KeyError((role, family))


class Sent:
    """One datagram on the network trace."""

    __slots__ = ("t_us", "host", "sock", "dest", "data")

    def __init__(self, t_us: int, host: str, sock: FakeSock, dest: tuple, data: bytes) -> None:
        self.t_us = t_us
        self.host = host
        self.sock = sock
        self.dest = dest
        self.data = data

    @property
    def multicast(self) -> bool:
        return self.dest[0] in (MDNS4, MDNS6)

    def __repr__(self) -> str:
        return f"<Sent t={self.t_us} {self.host}->{self.dest} {len(self.data)}B>"


class SimNet:
    """Records every sendto (the network trace) and delivers datagrams under a link policy."""

    LOOPBACK_US = 100
    DEFAULT_US = 1000

    def __init__(self, world: "World") -> None:
        self.world = world
        self.transports: List[FakeTransport] = []
        self.trace: List[Sent] = []
        self.arrivals: List[Tuple[float, str, bytes, tuple]] = []  # (ms, host, data, source) as delivered to sockets
        self.arrival_socks: List[int] = []  # parallel to arrivals: index of the receiving socket
        self.delivered = 0
        # link policy: (sent, src_transport, dst_transport) -> list of one-way delays in us ([] = drop)
        self.policy: Optional[Callable[[Sent, FakeTransport, FakeTransport], List[int]]] = None

    def attach(self, tr: FakeTransport) -> None:
        self.transports.append(tr)

    def _receivers(self, src: FakeTransport, dest: tuple) -> List[FakeTransport]:
        ip = dest[0]
        out = []
        if ip in (MDNS4, MDNS6):
            fam = socket.AF_INET if ip == MDNS4 else socket.AF_INET6
            for host in self.world.hosts:
                trs = [t for t in host.transports() if t.sock.family == fam]
                listen = [t for t in trs if t.sock.role == "listen"]
                pick = listen or trs
                if pick:
                    out.append(pick[0])
        else:
            for t in self.transports:
                if t.sock.ip == ip and dest[1] == 5353 and t.sock.role == "respond":
                    out.append(t)
        return out

    def sent(self, tr: FakeTransport, data: bytes, addr: tuple) -> None:
        loop = tr.loop
        s = Sent(loop.now_us, tr.sock.host.name, tr.sock, tuple(addr), data)
        self.trace.append(s)
        src_addr = tr.sock.getsockname()
        for other in self._receivers(tr, s.dest):
            if other.closed:
                continue
            if other is tr or other.sock.host is tr.sock.host:
                delays = [self.LOOPBACK_US]
            elif self.policy is not None:
                delays = self.policy(s, tr, other)
            else:
                delays = [self.DEFAULT_US]
            for d in delays:
                loop.call_at((loop.now_us + d) / 1_000_000, self._deliver, other, data, src_addr)

    def _deliver(self, other: FakeTransport, data: bytes, src: tuple) -> None:
        if not other.closed:
            self.delivered += 1
            self.arrivals.append((other.loop.now_us / 1000, other.sock.host.name, data, src))
            self.arrival_socks.append(other.sock.idx)
            other.protocol.datagram_received(data, src)

    def inject(self, host: Host, data: bytes, src: tuple, role: str = "any", family: Optional[int] = None) -> None:
        """Scripted peer: hand `data` to the host's listener right now, as coming from `src`."""
        if family is None:
            family = socket.AF_INET6 if len(src) == 4 else socket.AF_INET
        for t in host.transports():
            if (role == "any" or t.sock.role == role) and t.sock.family == family and not t.closed:
                self.delivered += 1
                self.arrivals.append((t.loop.now_us / 1000, host.name, data, src))
                self.arrival_socks.append(t.sock.idx)
                try:
                    t.protocol.datagram_received(data, src)
                except Exception as exc:  # noqa: BLE001 - what a selector transport does: report to the loop
                    t.loop.call_exception_handler({"message": "Fatal error on transport (exception escaped "
                                                              "datagram_received)", "exception": exc})
                return
        # closed or missing socket: nothing is listening

    def sent_by(self, host: str, since_us: int = 0) -> List[Sent]:
        return [s for s in self.trace if s.host == host and s.t_us >= since_us]


# --------------------------------------------------------------------------------------------------
# Seams
# --------------------------------------------------------------------------------------------------


class _FakeTimeModule:
    """Stands in for the `time` module inside zeroconf."""

    def monotonic(self) -> float:
        w = CURRENT
        if w is None:
            return _real_time.monotonic()
        return w.loop.now_us / 1_000_000

    # every other way of reading a clock is virtual too (the library documents that its clock "may change in the future")
    def monotonic_ns(self) -> int:
        w = CURRENT
        return _real_time.monotonic_ns() if w is None else w.loop.now_us * 1000

    def perf_counter(self) -> float:
        return self.monotonic()

    def perf_counter_ns(self) -> int:
        return self.monotonic_ns()

    def time(self) -> float:
        w = CURRENT
        return _real_time.time() if w is None else 1_700_000_000.0 + w.loop.now_us / 1_000_000

    def time_ns(self) -> int:
        w = CURRENT
        return _real_time.time_ns() if w is None else 1_700_000_000_000_000_000 + w.loop.now_us * 1000

    def __getattr__(self, name: str) -> Any:
        return getattr(_real_time, name)


def _fake_current_time_millis() -> float:
    w = CURRENT
    if w is None:
        return _real_time.monotonic() * 1000
    return w.loop.now_us / 1000


class _FakeRandom:
    """Stands in for the `random` module / its global functions inside zeroconf."""

    def randint(self, a: int, b: int) -> int:
        w = CURRENT
        if w is None:
            return _real_random.randint(a, b)
        v = w.rand(a, b)
        if not a <= v <= b:
            raise HarnessError(f"random policy returned {v} outside [{a},{b}]")
        w.draws.append((a, b, v))
        return v

    # the other ways of drawing a number are mapped onto the same choice point (a position in the interval), so that a
    # harmless change of the drawing function stays under the harness' control
    def _frac(self) -> float:
        return self.randint(0, 1000) / 1000

    def random(self) -> float:
        return min(self._frac(), 0.999999)

    def uniform(self, a: float, b: float) -> float:
        if float(a).is_integer() and float(b).is_integer() and a <= b:
            return float(self.randint(int(a), int(b)))  # the same choice point as randint(a, b): policies recognise it by its range
        return a + (b - a) * self._frac()

    def randrange(self, start: int, stop: Optional[int] = None, step: int = 1) -> int:
        if stop is None:
            start, stop = 0, start
        n = (stop - start + step - 1) // step
        return start + step * self.randint(0, n - 1)

    def choice(self, seq: Any) -> Any:
        return seq[self.randint(0, len(seq) - 1)]

    def __getattr__(self, name: str) -> Any:
        raise HarnessError(f"zeroconf used random.{name}, which the harness does not own")


_FAKE_TIME = _FakeTimeModule()
_FAKE_RANDOM = _FakeRandom()
_INSTALLED = False
PATCHED: List[str] = []


def _fake_create_sockets(interfaces: Any, unicast: bool, ip_version: Any, apple_p2p: bool = False):
    w = CURRENT
    assert w is not None and w._pending_host is not None, "create_sockets outside World.new_zeroconf"
    return w._pending_host.make_socks()


def _fake_run_coro_with_timeout(aw: Any, loop: Any, timeout: float) -> Any:
    return loop.drive(aw, timeout)


def install_seams() -> None:
    """Rebind clock, random, sockets and the caller-thread bridge in every zeroconf module (once)."""
    global _INSTALLED
    if _INSTALLED:
        return
    import zeroconf  # noqa: F401
    import zeroconf._core
    import zeroconf._utils.asyncio as zua
    import zeroconf._utils.net as zun
    import zeroconf._utils.time as zut
    import zeroconf.asyncio  # noqa: F401

    real_ctm = zut.current_time_millis
    real_rcwt = zua.run_coro_with_timeout
    real_create = zun.create_sockets
    for modname, mod in sorted(sys.modules.items()):
        if not (modname == "zeroconf" or modname.startswith("zeroconf.")) or mod is None:
            continue
        for attr, val in list(vars(mod).items()):
            new = None
            if val is real_ctm:
                new = _fake_current_time_millis
            elif val is _real_time:
                new = _FAKE_TIME
            elif val is _real_random:
                new = _FAKE_RANDOM
            elif val is _real_random.randint:
                new = _FAKE_RANDOM.randint
            elif val is _real_random.random:
                new = _FAKE_RANDOM.random
            elif val is _real_random.uniform:
                new = _FAKE_RANDOM.uniform
            elif val is _real_random.randrange:
                new = _FAKE_RANDOM.randrange
            elif val is _real_random.choice:
                new = _FAKE_RANDOM.choice
            elif any(val is f for f in (_real_random.shuffle, _real_random.sample)):
                raise HarnessError(f"{modname}.{attr} is a random function the harness does not model")
            elif val is real_rcwt:
                new = _fake_run_coro_with_timeout
            elif val is real_create:
                new = _fake_create_sockets
            if new is not None:
                setattr(mod, attr, new)
                PATCHED.append(f"{modname}.{attr}")
    zeroconf._core.autodetect_ip_version = lambda interfaces: None
    # quiet, but still formatting (exercises __repr__ paths when DEBUG is on)
    log = logging.getLogger("zeroconf")
    log.handlers[:] = [_FormattingNullHandler()]
    log.propagate = False
    log.setLevel(logging.WARNING)
    must = {"zeroconf._utils.time.time", "zeroconf._core.create_sockets", "zeroconf._core.run_coro_with_timeout",
            "zeroconf._core.current_time_millis", "zeroconf._listener.current_time_millis"}
    missing = must - set(PATCHED)
    if missing:
        raise HarnessError(f"seams not found (refactored upstream?): {sorted(missing)}")
    _INSTALLED = True
    # everything imported so far is immortal: keeps the per-execution gc.collect() (needed to surface
    # "exception was never retrieved") cheap
    gc.collect()
    gc.freeze()


class _FormattingNullHandler(logging.Handler):
    def emit(self, record: logging.LogRecord) -> None:
        try:
            record.getMessage()
        except Exception:  # a broken __repr__ inside a log call is the library's problem: re-raise
            raise

    def handleError(self, record: logging.LogRecord) -> None:  # pragma: no cover
        raise


def set_debug_logging(on: bool) -> None:
    logging.getLogger("zeroconf").setLevel(logging.DEBUG if on else logging.WARNING)


class OrderedSet:
    """Insertion-ordered set with the subset of the `set` interface zeroconf uses."""

    def __init__(self, items: Any = ()) -> None:
        self._d: Dict[Any, None] = dict.fromkeys(items)

    def add(self, x: Any) -> None:
        self._d[x] = None

    def remove(self, x: Any) -> None:
        del self._d[x]

    def discard(self, x: Any) -> None:
        self._d.pop(x, None)

    def clear(self) -> None:
        self._d.clear()

    def copy(self) -> "OrderedSet":
        return OrderedSet(self._d)

    def __iter__(self):
        return iter(list(self._d))

    def __len__(self) -> int:
        return len(self._d)

    def __contains__(self, x: Any) -> bool:
        return x in self._d

    def __bool__(self) -> bool:
        return bool(self._d)


# --------------------------------------------------------------------------------------------------
# World
# --------------------------------------------------------------------------------------------------


def rand_low(a: int, b: int) -> int:
    return a


def rand_high(a: int, b: int) -> int:
    return b


class World:
    """One execution's universe. Use as a context manager; build a fresh one per execution."""

    _RNG_SEED = 0x5EED

    def __init__(self, rand: Callable[[int, int], int] = rand_low, debug_log: bool = False,
                 record_instants: bool = False) -> None:
        install_seams()
        self.loop = VLoop()
        if record_instants:
            self.loop.instants = set()
        self.net = SimNet(self)
        self.hosts: List[Host] = []
        self.rand = rand
        self.draws: List[Tuple[int, int, int]] = []
        self._sock_idx = 0
        self._pending_host: Optional[Host] = None
        self._debug = debug_log
        self._prev: Optional[World] = None
        self._rng_state: Any = None

    # -- context -------------------------------------------------------------------------------
    def __enter__(self) -> "World":
        global CURRENT
        self._prev = CURRENT
        CURRENT = self
        events._set_running_loop(self.loop)
        _real_random.seed(self._RNG_SEED)
        self._rng_state = _real_random.getstate()
        set_debug_logging(self._debug)
        return self

    def __exit__(self, *exc: Any) -> None:
        global CURRENT
        events._set_running_loop(None)
        CURRENT = self._prev
        if exc[0] is None and _real_random.getstate() != self._rng_state:
            raise HarnessError("the global random generator was used behind the harness' back")
        # break reference cycles early; worlds are created by the million
        self.loop._ready.clear()
        self.loop._scheduled.clear()

    class _Outside:
        def __init__(self, w: "World", foreign_loop: bool = False) -> None:
            self.w = w
            self.foreign_loop = foreign_loop

        def __enter__(self) -> None:
            # a foreign thread either runs no event loop at all, or one of its own (an asyncio application that uses the
            # blocking API from its own loop's thread)
            events._set_running_loop(VLoop() if self.foreign_loop else None)

        def __exit__(self, *exc: Any) -> None:
            events._set_running_loop(self.w.loop)

    def outside(self, foreign_loop: bool = False) -> "World._Outside":
        """Code in this block runs like a foreign thread: no running loop, or another loop than the instance's."""
        return World._Outside(self, foreign_loop)

    # -- building ------------------------------------------------------------------------------
    def next_sock_idx(self) -> int:
        self._sock_idx += 1
        return self._sock_idx

    def new_host(self, mode: str = "single", name: Optional[str] = None) -> Host:
        n = len(self.hosts) + 1
        h = Host(self, name or f"h{n}", f"10.0.0.{n}", f"fe80::{n}", mode)
        self.hosts.append(h)
        return h

    def new_zeroconf(self, mode: str = "single", name: Optional[str] = None, asyncio_api: bool = True,
                     settle: bool = True) -> Host:
        """Create a host running a real Zeroconf (wrapped in AsyncZeroconf) and let it start."""
        from zeroconf import Zeroconf
        from zeroconf.asyncio import AsyncZeroconf

        h = self.new_host(mode, name)
        self._pending_host = h
        try:
            zc = Zeroconf()
        finally:
            self._pending_host = None
        # iteration order of these two sets would otherwise depend on object addresses; only a *set* is replaced - if the
        # library keeps its listeners in another kind of container, that container's semantics are what gets explored
        rm = getattr(zc, "record_manager", None)
        if type(getattr(rm, "listeners", None)) is set:
            rm.listeners = OrderedSet()
        if type(getattr(zc, "_notify_futures", None)) is set:
            zc._notify_futures = OrderedSet()
        h.zc = zc
        h.azc = AsyncZeroconf(zc=zc) if asyncio_api else None
        if settle:
            self.loop.run_ready()
            assert zc.started, "instance did not start"
        return h

    # -- time ----------------------------------------------------------------------------------
    @property
    def now_ms(self) -> float:
        return self.loop.now_us / 1000

    @property
    def now_us(self) -> int:
        return self.loop.now_us

    def advance(self, delta_ms: float) -> None:
        self.loop.advance(delta_ms)

    def advance_to_ms(self, t_ms: float) -> None:
        self.loop.advance_to(int(round(t_ms * 1000)))

    def settle(self) -> None:
        self.loop.run_ready()

    def spawn(self, coro: Any) -> asyncio.Task:
        return self.loop.create_task(coro)

    def run_coro(self, coro: Any, max_ms: float = 3_600_000) -> Any:
        """Run a coroutine inside the loop to completion, advancing virtual time as needed."""
        task = self.loop.create_task(coro)
        deadline = self.loop.now_us + int(max_ms * 1000)
        while True:
            self.loop.run_ready()
            if task.done():
                return task.result()
            nt = self.loop.next_timer_us()
            if nt is None or nt > deadline:
                raise HarnessError("run_coro(): coroutine did not finish")
            self.loop.advance_to(nt)

    def exceptions(self) -> List[str]:
        return self.loop.collect_exceptions()
