"""Conversions between the plain wire.py entry tuples and zeroconf's record objects."""
from __future__ import annotations

from typing import Any, List, Optional

from . import wire


def to_lib(e: tuple, created: Optional[float] = 1.0) -> Any:
    from zeroconf import DNSAddress, DNSHinfo, DNSNsec, DNSPointer, DNSQuestion, DNSService, DNSText

    k = e[0]
    if k == "Q":
        return DNSQuestion(e[1], e[2], e[3])
    if k in ("A", "AAAA"):
        return DNSAddress(e[1], wire.TYPE_OF[k], e[2], e[3], e[4], created=created)
    if k in ("PTR", "CNAME"):
        return DNSPointer(e[1], wire.TYPE_OF[k], e[2], e[3], e[4], created)
    if k == "TXT":
        return DNSText(e[1], 16, e[2], e[3], e[4], created)
    if k == "SRV":
        return DNSService(e[1], 33, e[2], e[3], e[4], e[5], e[6], e[7], created)
    if k == "HINFO":
        return DNSHinfo(e[1], 13, e[2], e[3], _s(e[4]), _s(e[5]), created)
    if k == "NSEC":
        return DNSNsec(e[1], 47, e[2], e[3], e[4], list(e[5]), created)
    raise ValueError(k)


def _s(x: Any) -> str:
    return x if isinstance(x, str) else bytes(x).decode("utf-8")


def from_lib(r: Any) -> tuple:
    """Library object -> wire tuple (class carries the unique/QU bit as the object reports it)."""
    n = type(r).__name__
    cls = r.class_ | (0x8000 if r.unique else 0)
    if n == "DNSQuestion":
        return ("Q", r.name, r.type, cls)
    if n == "DNSAddress":
        return ("A" if r.type == 1 else "AAAA", r.name, cls, r.ttl, bytes(r.address))
    if n == "DNSPointer":
        return ("PTR" if r.type == 12 else "CNAME", r.name, cls, r.ttl, r.alias)
    if n == "DNSText":
        return ("TXT", r.name, cls, r.ttl, bytes(r.text))
    if n == "DNSService":
        return ("SRV", r.name, cls, r.ttl, r.priority, r.weight, r.port, r.server)
    if n == "DNSHinfo":
        return ("HINFO", r.name, cls, r.ttl, r.cpu.encode("utf-8"), r.os.encode("utf-8"))
    if n == "DNSNsec":
        return ("NSEC", r.name, cls, r.ttl, r.next_name, tuple(sorted(r.rdtypes)))
    raise TypeError(n)


def norm(e: tuple) -> tuple:
    """Canonical comparison form of a wire tuple (HINFO strings as bytes, NSEC types sorted)."""
    k = e[0]
    if k == "HINFO":
        return e[:4] + (wire._b(e[4]), wire._b(e[5]))
    if k == "NSEC":
        return e[:5] + (tuple(sorted(e[5])),)
    if k in ("A", "AAAA", "TXT"):
        return e[:4] + (bytes(e[4]),)
    return tuple(e)


def incoming_sections(msg: Any) -> List[List[tuple]]:
    """[questions, answers, authorities, additionals] of a DNSIncoming as wire tuples (split by header counts)."""
    recs = [from_lib(r) for r in msg.answers()]
    a, b = msg.num_answers, msg.num_answers + msg.num_authorities
    return [[from_lib(q) for q in msg.questions], recs[:a], recs[a:b], recs[b:]]
