"""Scenario helpers shared by the E1 checks: services, scripted peers, decoded network traces."""
from __future__ import annotations

from typing import Any, Dict, Iterable, List, Optional, Sequence, Tuple

from . import wire
from .models.cache_model import ident
from .models.responder_model import Svc
from .world import Host, Sent, World

PEER_IP = "10.0.0.99"
V4 = [bytes([10, 0, 0, i]) for i in range(1, 9)]
V6 = [bytes.fromhex("fe80000000000000000000000000000%d" % i) for i in range(1, 9)]


def make_info(s: Svc, cls: Any = None) -> Any:
    from zeroconf import ServiceInfo

    cls = cls or ServiceInfo
    return cls(s.type, s.name, s.port, s.weight, s.priority, s.text, s.server, s.host_ttl, s.other_ttl,
               addresses=s.v4 + s.v6)


def register(w: World, host: Host, info: Any, wait: bool = True, **kw: Any) -> None:
    """async_register_service incl. (by default) the announcement task, as the sync API does."""

    async def go() -> None:
        task = await host.zc.async_register_service(info, **kw)
        if wait:
            await task

    w.run_coro(go())


def unregister(w: World, host: Host, info: Any, wait: bool = True) -> None:
    async def go() -> None:
        task = await host.zc.async_unregister_service(info)
        if wait:
            await task

    w.run_coro(go())


class Decoded:
    """A datagram of the trace, decoded with the independent decoder."""

    __slots__ = ("sent", "msg", "t_ms")

    def __init__(self, sent: Sent) -> None:
        self.sent = sent
        self.msg = wire.decode(sent.data)
        self.t_ms = sent.t_us / 1000

    @property
    def is_response(self) -> bool:
        return self.msg.is_response

    @property
    def multicast(self) -> bool:
        return self.sent.multicast

    def records(self) -> List[tuple]:
        return self.msg.records()

    def idents_ttl(self) -> List[Tuple[tuple, int]]:
        return [(ident(r), r[3]) for r in self.msg.records() if r[0] != "RAW"]

    def brief(self) -> str:
        kinds = ",".join(f"{r[0]}:{r[3]}" for r in self.msg.records())
        qs = ",".join(f"Q{q[2]}{'u' if q[3] & 0x8000 else 'm'}" for q in self.msg.questions)
        return f"{self.t_ms:.1f} {self.sent.host}->{self.sent.dest[0]}:{self.sent.dest[1]} [{qs}|{kinds}]"


def decoded_trace(w: World, host: Optional[str] = None, since_ms: float = 0.0) -> List[Decoded]:
    return [Decoded(s) for s in w.net.trace if (host is None or s.host == host) and s.t_us / 1000 >= since_ms]


def svc_records(s: Svc, with_addresses: bool = True) -> List[tuple]:
    recs = [s.ptr(), s.srv(), s.txt()]
    if with_addresses:
        recs += s.addrs()
    return recs


def nsec_ident_matches(i: tuple, s: Svc) -> bool:
    return i[0] == "NSEC" and i[1] in (s.name.lower(), s.server.lower())


class Peer:
    """A scripted peer (not a Zeroconf instance): injects hand-built datagrams into a host's listener."""

    def __init__(self, w: World, ip: str = PEER_IP) -> None:
        self.w = w
        self.ip = ip

    def send(self, host: Host, data: bytes, port: int = 5353, v6: bool = False, role: str = "any") -> None:
        src: tuple = (self.ip, port) if not v6 else ("fe80::99", port, 0, host.scope_id)
        self.w.net.inject(host, data, src, role=role)
        self.w.settle()

    def at(self, t_ms: float, host: Host, data: bytes, port: int = 5353, v6: bool = False) -> None:
        """Schedule an injection at absolute virtual time t_ms."""
        src: tuple = (self.ip, port) if not v6 else ("fe80::99", port, 0, host.scope_id)
        self.w.loop.call_at(t_ms / 1000, self.w.net.inject, host, data, src)


class RandPolicy:
    """Random seam policies."""

    @staticmethod
    def const(frac: float):
        def f(a: int, b: int) -> int:
            return a + int(round((b - a) * frac))
        return f

    @staticmethod
    def seq(values: Sequence[float], default: float = 0.0):
        it = iter(values)

        def f(a: int, b: int) -> int:
            fr = next(it, default)
            return a + int(round((b - a) * fr))
        return f
