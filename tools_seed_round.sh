#!/bin/sh
# usage: tools_seed_round.sh <letter> <ID> [extra check ids...]
# confirms the sub-agent's change of /tmp/wt/<ID><letter> (suite + demonstration) and runs the property's own check (plus any
# extra ones) on a scratch copy carrying the change. Log: /tmp/round/<ID>-<letter>.log
l=$1; id=$2; shift 2
wt=/tmp/wt/$id$l
low=$(echo $id | tr A-Z a-z)
demo=$(cd $wt && ls demo_$low*.py 2>/dev/null | head -1)
mkdir -p /tmp/round
{
  /verif/tools_seed_confirm.sh $wt $id-$l "$demo"
  echo "== checks"
  /verif/tools_seed_eval.sh /verif/seeded/$id-$l/patch.diff $id "$@"
} > /tmp/round/$id-$l.log 2>&1
tail -6 /tmp/round/$id-$l.log
