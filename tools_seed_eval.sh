#!/bin/sh
# usage: tools_seed_eval.sh <patch.diff> [tier] <check ids...>
# Applies a seeded change to a scratch copy of /repo/src (never to /repo itself) and runs the given checks against it.
set -e
patch=$1; shift
tier=quick
case "$1" in quick|thorough) tier=$1; shift;; esac
M=/tmp/seedrun.$$; rm -rf $M; mkdir -p $M; cp -r /repo/src $M/src
( cd $M && patch -p1 -s < "$patch" ) || { echo "patch does not apply"; rm -rf $M; exit 3; }
for c in "$@"; do
  VERIF_REPO=$M VERIF_SCRATCH_OUT=$M/out timeout 1800 /verif/check $c --tier $tier 2>&1 | grep -E "^(C[0-9]+ tier|VIOLATION|KNOWN|HARNESS)" | cut -c1-260 | sed -n '1,3p;$p'
done
rm -rf $M
