#!/bin/sh
# usage: run_from.sh <tier> <ids...>  - like run_all.sh for a chosen list
tier=$1; shift
cd "$(dirname "$0")" || exit 2
for c in "$@"; do
  out=$(./check $c --tier "$tier" 2>&1); code=$?
  echo "$out" | grep -E "^(C[0-9]+ tier|VIOLATION|HARNESS-ERROR|  cap)" | cut -c1-220 | head -5
  [ $code -ne 0 ] && echo "  -> $c exit $code"
done
