#!/usr/bin/env python3
"""usage: tools_seed_rebase.py <seed-id>...
Re-bases a seeded change whose patch.diff no longer applies to /repo's working tree: finds the newest /repo commit the patch
still applies to, applies it there and merges (git merge-file, three-way) what /repo changed since into the changed files.
The original is kept as patch.orig.diff; conflicts are reported and left for a manual rebase."""
import json
import os
import re
import shutil
import subprocess
import sys
import tempfile

REPO = "/repo"


def sh(*a, cwd=None, inp=None):
    return subprocess.run(a, cwd=cwd, input=inp, capture_output=True, text=True)


def files_of(patch: str):
    return sorted(set(re.findall(r"^\+\+\+ b/(\S+)", patch, re.M)))


def materialise(commit: str, files, dest: str) -> None:
    for f in files:
        os.makedirs(os.path.dirname(os.path.join(dest, f)), exist_ok=True)
        r = sh("git", "-C", REPO, "show", f"{commit}:{f}")
        open(os.path.join(dest, f), "w").write(r.stdout if r.returncode == 0 else "")


def main() -> int:
    rc = 0
    for sid in sys.argv[1:]:
        d = f"/verif/seeded/{sid}"
        patch = open(f"{d}/patch.diff").read()
        files = files_of(patch)
        commits = sh("git", "-C", REPO, "log", "--format=%H", "--", *files).stdout.split()
        commits = ["HEAD"] + [c + "~1" for c in commits]
        done = False
        for c in commits:
            tmp = tempfile.mkdtemp(prefix="rebase.")
            try:
                base, mut, cur = (os.path.join(tmp, x) for x in ("base", "mut", "cur"))
                materialise(c, files, base)
                shutil.copytree(base, mut)
                if sh("patch", "-p1", "-s", "-f", cwd=mut, inp=patch).returncode != 0:
                    continue
                for f in files:
                    os.makedirs(os.path.dirname(os.path.join(cur, f)), exist_ok=True)
                    shutil.copy(os.path.join(REPO, f), os.path.join(cur, f))
                conflict = [f for f in files
                            if sh("git", "merge-file", "-q", os.path.join(mut, f), os.path.join(base, f), os.path.join(cur, f)).returncode != 0]
                if conflict:
                    print(f"{sid}: applies at {c[:12]} but merging /repo's later changes conflicts in {conflict}")
                    rc = 1
                    done = True
                    break
                a, b = os.path.join(tmp, "a"), os.path.join(tmp, "b")
                for f in files:
                    for side, src in ((a, cur), (b, mut)):
                        os.makedirs(os.path.dirname(os.path.join(side, f)), exist_ok=True)
                        shutil.copy(os.path.join(src, f), os.path.join(side, f))
                new = sh("diff", "-ruN", "a", "b", cwd=tmp).stdout
                if not os.path.exists(f"{d}/patch.orig.diff"):
                    shutil.copy(f"{d}/patch.diff", f"{d}/patch.orig.diff")
                open(f"{d}/patch.diff", "w").write(new)
                m = json.load(open(f"{d}/meta.json"))
                head = sh("git", "-C", REPO, "rev-parse", "--short", "HEAD").stdout.strip()
                m["note"] = ((m.get("note") or "") + " | " if m.get("note") else "") + f"patch re-based onto {head} by three-way merge (original: patch.orig.diff)"
                json.dump(m, open(f"{d}/meta.json", "w"), indent=1)
                print(f"{sid}: re-based (applied at {c[:12]}, {len(new.splitlines())} diff lines)")
                done = True
                break
            finally:
                shutil.rmtree(tmp, ignore_errors=True)
        if not done:
            print(f"{sid}: no /repo commit found where the patch applies")
            rc = 1
    return rc


if __name__ == "__main__":
    sys.exit(main())
