#!/venv/bin/python
"""Self-test: hand-written property-breaking one-line changes; each must make the corresponding check fail.

usage: selftest/mutants.py [name-substring ...]     (runs against scratch copies of /repo/src, never /repo itself)
"""
import os
import shutil
import subprocess
import sys

# (name, property, file under src/zeroconf, old, new)
MUTANTS = [
    ("c01-names-kept-across-packets", "C01", "_protocol/outgoing.py",
     "        self.names = {}\n        self.data = []\n        self.size = _DNS_PACKET_HEADER_LEN\n        self.allow_long = True\n\n    def __repr__",
     "        self.data = []\n        self.size = _DNS_PACKET_HEADER_LEN\n        self.allow_long = True\n\n    def __repr__"),
    ("c01-rollback-keeps-names", "C01", "_protocol/outgoing.py",
     "        for name in rollback_names:\n            del self.names[name]\n", "        pass\n"),
    ("c01-flush-bit-on-unicast", "C01", "_protocol/outgoing.py",
     "        if record.unique is True and self.multicast:", "        if record.unique is True:"),
    ("c02-no-seen-pointer-check", "C02", "_protocol/incoming.py",
     "            if link_py_int in seen_pointers:", "            if False and link_py_int in seen_pointers:"),
    ("c02-name-limit-off-by-a-lot", "C02", "_protocol/incoming.py", "MAX_NAME_LENGTH = 253", "MAX_NAME_LENGTH = 2530"),
    ("c03-known-answer-ge-half", "C03", "_dns.py",
     "        return other.ttl > (record.ttl / 2)", "        return other.ttl >= (record.ttl / 2)"),
    ("c03-no-memo-clear-on-update", "C03", "_services/registry.py",
     "        info.async_clear_cache()\n", ""),
    # (a mutant swapping the Added/Removed precedence in _enqueue_callback is equivalent under the quantifier: both can
    #  only be pending for one name when a datagram withdraws and asserts the same record, which the statement excludes)
    ("c04-no-remove-on-expiry", "C04", "_services/browser.py",
     "                    elif pointer.is_expired(now):", "                    elif pointer.ttl == 0:"),
    ("c04-callbacks-before-cache", "C04", "_services/browser.py",
     "            for type_, name in self._names_matching_types((record.name,)):\n                self._enqueue_callback(SERVICE_STATE_CHANGE_UPDATED, type_, name)\n",
     "            for type_, name in self._names_matching_types((record.name,)):\n                self._enqueue_callback(SERVICE_STATE_CHANGE_UPDATED, type_, name)\n        self.async_update_records_complete()\n"),
    ("c05-service-index-not-removed", "C05", "_cache.py",
     "        if isinstance(record, DNSService):\n            _remove_key(self.service_cache, record.server_key, record)\n", ""),
    ("c05-expired-strict", "C05", "_dns.py",
     "        return self.created + (_EXPIRE_FULL_TIME_MS * self.ttl) <= now",
     "        return self.created + (_EXPIRE_FULL_TIME_MS * self.ttl) < now"),
    ("c06-adds-before-notify", "C06", "_handlers/record_manager.py",
     "        if updates:\n            self.async_updates(now, updates)\n        # The cache adds",
     "        cache.async_add_records(address_adds)\n        if updates:\n            self.async_updates(now, updates)\n        # The cache adds"),
    ("c06-no-ptr-floor", "C06", "_handlers/record_manager.py",
     "            if record_ttl and record_type == _TYPE_PTR and record_ttl < _DNS_PTR_MIN_TTL:",
     "            if False and record_ttl and record_type == _TYPE_PTR and record_ttl < _DNS_PTR_MIN_TTL:"),
    ("c06-flush-window-ge", "C06", "_cache.py",
     "                if (now - created_double > _ONE_SECOND) and record not in answers_rrset:",
     "                if (now - created_double >= _ONE_SECOND) and record not in answers_rrset:"),
    ("c08-two-goodbyes", "C08", "_core.py", "_REGISTER_BROADCASTS = 3", "_REGISTER_BROADCASTS = 2"),
    ("c08-goodbye-without-txt", "C08", "_core.py",
     "        out.add_answer_at_time(info.dns_text(override_ttl=other_ttl), 0)\n", ""),
    ("c08-queue-purge-removed", "C08", "_core.py",
     "        self.out_queue.async_remove_records(withdrawn)\n", ""),
    ("c09-name-cache-not-reset-on-rename", "C09", "_services/info.py",
     "        self._dns_service_cache = None\n        self._dns_pointer_cache = None\n        self._dns_text_cache = None\n\n    @property\n    def addresses",
     "        self._dns_service_cache = None\n        self._dns_text_cache = None\n\n    @property\n    def addresses"),
    ("c09-check-interval-150", "C09", "const.py", "_CHECK_TIME = 175  # ms", "_CHECK_TIME = 150  # ms"),
    ("c10-no-rescue", "C10", "_services/browser.py",
     "        for query in schedule_rescue:\n            self.schedule_rescue_query(query, now_millis, RESCUE_RECORD_RETRY_TTL_PERCENTAGE)\n", ""),
    ("c10-rate-limit-ignored", "C10", "_services/browser.py",
     "        if next_scheduled is not None and next_scheduled.when_millis > next_time_millis:",
     "        if next_scheduled is not None:"),
    ("c11-id-not-echoed", "C11", "_handlers/answers.py",
     "    out = DNSOutgoing(_FLAGS_QR_RESPONSE_AA, False, id_)", "    out = DNSOutgoing(_FLAGS_QR_RESPONSE_AA, False, 0)"),
    ("c11-probe-not-unicast", "C11", "_handlers/query_handler.py",
     "            if self._is_probe:\n                self._ucast.add(record)\n", ""),
    ("c12-protection-500ms", "C12", "_handlers/query_handler.py",
     "self._now - maybe_entry.created < _ONE_SECOND)", "self._now - maybe_entry.created < 500)"),
    ("c12-send-before-ignored", "C12", "_handlers/multicast_outgoing_queue.py",
     "        if len(self.queue) > 1 and self.queue[0].send_before > now:",
     "        if len(self.queue) > 1 and self.queue[-1].send_before > now:"),
    ("c12-tc-delay-short", "C12", "_listener.py", "_TC_DELAY_RANDOM_INTERVAL = (400, 500)", "_TC_DELAY_RANDOM_INTERVAL = (200, 300)"),
    ("c13-known-answers-until-expired", "C13", "_services/browser.py",
     "            if not record.is_stale(now_millis) and", "            if not record.is_expired(now_millis) and"),
    ("c13-history-99ms", "C13", "const.py", "_DUPLICATE_QUESTION_INTERVAL = 999", "_DUPLICATE_QUESTION_INTERVAL = 99"),
    ("c14-tc-on-responses", "C14", "_protocol/outgoing.py",
     "            if has_more_to_add and self.is_query():", "            if has_more_to_add:"),
    ("c14-allow-long-never-reset", "C14", "_protocol/outgoing.py",
     "        len_limit = _MAX_MSG_ABSOLUTE if self.allow_long else _MAX_MSG_TYPICAL\n        self.allow_long = False\n",
     "        len_limit = _MAX_MSG_ABSOLUTE if self.allow_long else _MAX_MSG_TYPICAL\n"),
    ("c08-sync-unregister-not-awaited", "C08", "_core.py",
     "            await_awaitable(self.async_unregister_service(info)),\n            self.loop,",
     "            self.async_unregister_service(info),\n            self.loop,"),
    # (moving set_server_if_missing back in front of the conflict check became equivalent once the name setter moves a
    #  defaulted host name along with a rename, 1e0a600)
    ("c09-defaulted-host-does-not-follow-rename", "C09", "_services/info.py",
     "        if self.server_key is not None and self.server_key == self.key:", "        if False:"),
    ("c10-kept-query-keeps-old-ttl", "C10", "_services/browser.py",
     "                current.ttl = int(pointer.ttl) if isinstance(pointer.ttl, float) else pointer.ttl\n"
     "                current.expire_time_millis = pointer.get_expiration_time(100)\n", ""),
    ("c15-no-size-guard", "C15", "_listener.py",
     "        if data_len > _MAX_MSG_ABSOLUTE:", "        if data_len > 10 * _MAX_MSG_ABSOLUTE:"),
    ("c15-echo-containment-removed", "C15", "_handlers/query_handler.py",
     "            except NamePartTooLongException:", "            except ZeroDivisionError:"),
    ("c15-unencodable-known-answer", "C15", "_services/browser.py",
     "            if not record.is_stale(now_millis) and name_can_be_encoded(cast(DNSPointer, record).alias)",
     "            if not record.is_stale(now_millis)"),
    ("c15-unencodable-host-asked", "C15", "_services/info.py",
     "        if not name_can_be_encoded(name):\n            return\n", ""),
    ("c16-no-duplicate-guard", "C16", "_listener.py",
     "            self.data == data\n            and (now - _DUPLICATE_PACKET_SUPPRESSION_INTERVAL) < self.last_time",
     "            False\n            and (now - _DUPLICATE_PACKET_SUPPRESSION_INTERVAL) < self.last_time"),
    ("c17-purge-timer-left-armed", "C17", "_engine.py",
     "        assert self._cleanup_timer is not None\n        self._cleanup_timer.cancel()\n", "        assert self._cleanup_timer is not None\n"),
    ("c17-send-after-done", "C17", "_core.py",
     '        """Sends an outgoing packet."""\n        if self.done:\n            return\n', '        """Sends an outgoing packet."""\n'),
    ("c18-expired-records-used", "C18", "_services/info.py",
     "        if record.is_expired(now):\n            return False\n\n        record_key = record.key", "        record_key = record.key"),
    ("c18-deadline-ignored", "C18", "_services/info.py",
     "                if last <= now:\n                    return False", "                if last + 300 <= now:\n                    return False"),
    ("c19-sixteen-characters", "C19", "_utils/name.py",
     "        if strict and len(test_service_name) > 15:", "        if strict and len(test_service_name) > 16:"),
    ("c19-no-control-char-test", "C19", "_utils/name.py",
     "        if _HAS_ASCII_CONTROL_CHARS.search(remaining[0]):", "        if False and _HAS_ASCII_CONTROL_CHARS.search(remaining[0]):"),
    ("c19-txt-empty-value-dropped", "C19", "_services/info.py",
     "            if value is not None:\n                if not isinstance(value, bytes):", "            if value:\n                if not isinstance(value, bytes):"),
    ("c20-ttl-in-eq", "C20", "_dns.py",
     "        return self.text == other.text and self._dns_entry_matches(other)",
     "        return self.text == other.text and self.ttl == other.ttl and self._dns_entry_matches(other)"),
    ("c20-scope-id-not-hashed", "C20", "_dns.py",
     "            self.address == other.address\n            and self.scope_id == other.scope_id\n", "            self.address == other.address\n"),
    ("c07-announce-once", "C07", "_core.py",
     "        for i in range(_REGISTER_BROADCASTS):\n            if i != 0:\n                await asyncio.sleep(millis_to_seconds(interval))\n",
     "        for i in range(1):\n            if i != 0:\n                await asyncio.sleep(millis_to_seconds(interval))\n"),
    ("c07-startup-single-query", "C07", "_services/browser.py", "STARTUP_QUERIES = 4", "STARTUP_QUERIES = 1"),
    # reversals of the repairs made in rounds l-n
    ("c13-history-keeps-last-asking-only", "C13", "_history.py",
     "        kept.append((now, known_answers))\n        self._history[question] = kept\n",
     "        self._history[question] = [(now, known_answers)]\n"),
    ("c13-all-known-answers-per-question", "C13", "_handlers/query_handler.py",
     "{record for record in known_answers_set if question.answered_by(record)}", "known_answers_set"),
    ("c11-legacy-query-joins-pending-train", "C11", "_listener.py",
     "        if port != _MDNS_PORT:\n", "        if False and port != _MDNS_PORT:\n"),
    ("c04-other-classes-cached", "C04", "_handlers/record_manager.py",
     "            if record.class_ != _CLASS_IN:\n                continue\n", ""),
    ("c15-browser-type-as-spelled", "C15", "_services/browser.py",
     "                for key in cached_possible_types(pointer.key):", "                for key in cached_possible_types(pointer.name):"),
    ("c07-replay-compares-spelling", "C07", "_dns.py",
     "self.type in (rec.type, _TYPE_ANY) and self.key == rec.key", "self.type in (rec.type, _TYPE_ANY) and self.name == rec.name"),
    ("c07-no-purge-before-replay", "C07", "_handlers/record_manager.py",
     "            expired = self.cache.async_expire(now)\n            if expired:", "            expired = []\n            if expired:"),
    ("c04-pending-callbacks-not-taken-out", "C04", "_services/browser.py",
     "        self._pending_handlers = {}\n        for pending in pending_handlers.items():\n            self._fire_service_state_changed_event(pending)\n",
     "        for pending in pending_handlers.items():\n            self._fire_service_state_changed_event(pending)\n        self._pending_handlers.clear()\n"),
    ("c12-held-train-queued-from-first-packet", "C12", "_handlers/query_handler.py",
     "        now = first_packet.now if len(packets) == 1 and not first_packet.truncated else current_time_millis()",
     "        now = first_packet.now"),
    ("c08-announcements-outlive-withdrawal", "C08", "_core.py",
     "                if ttl != 0 and self.registry.async_get_info_name(info.key) is not info:", "                if False:"),
    ("c02-labels-counted-per-run", "C02", "_protocol/incoming.py",
     "                if labels_before + len(labels) > MAX_DNS_LABELS:", "                if len(labels) > MAX_DNS_LABELS:"),
    ("c10-armed-query-kept-on-the-late-side", "C10", "_services/browser.py",
     "            if 0 <= refresh_time_millis - current.when_millis <= self._min_time_between_queries_millis:",
     "            if -self._min_time_between_queries_millis <= refresh_time_millis - current.when_millis <= self._min_time_between_queries_millis:"),
    ("c15-cache-removal-raises-again", "C15", "_cache.py",
     "    entries = cache.get(key)\n    if entries is None:", "    entries = cache[key]\n    if entries is None:"),
]


def main() -> int:
    sel = sys.argv[1:]
    missed = []
    for name, prop, rel, old, new in MUTANTS:
        if sel and not any(s in name for s in sel):
            continue
        m = f"/tmp/selftest.{os.getpid()}"
        shutil.rmtree(m, ignore_errors=True)
        shutil.copytree("/repo/src", m + "/src")
        path = f"{m}/src/zeroconf/{rel}"
        src = open(path).read()
        if old not in src:
            print(f"{name:40s} {prop}  MUTANT DOES NOT APPLY")
            missed.append(name)
            shutil.rmtree(m)
            continue
        open(path, "w").write(src.replace(old, new, 1))
        env = dict(os.environ, VERIF_REPO=m, VERIF_SCRATCH_OUT=m + "/out")
        try:
            r = subprocess.run(["/verif/check", prop, "--tier", "quick"], env=env, capture_output=True, text=True, timeout=1500)
            code = r.returncode
            last = [l for l in r.stdout.splitlines() if l.startswith(prop + " tier")]
            summary = last[-1][:150] if last else (r.stdout + r.stderr)[-200:].replace("\n", " | ")
        except subprocess.TimeoutExpired:
            code, summary = -1, "TIMEOUT"
        verdict = "caught" if code == 1 else ("HARNESS-ERROR" if code == 2 else "MISSED")
        if code == 1 and os.environ.get("SELFTEST_REPLAY", "1") == "1":
            import glob
            files = sorted(glob.glob(f"{m}/out/replays/{prop}/*.json"))
            if files:
                try:
                    rr = subprocess.run(["/verif/check", prop, "--replay", files[0]], env=env, capture_output=True,
                                        text=True, timeout=600)
                    verdict += " replay-ok" if rr.returncode == 1 else f" REPLAY-RC{rr.returncode}"
                    if rr.returncode != 1:
                        missed.append(name + ":replay")
                except subprocess.TimeoutExpired:
                    verdict += " REPLAY-TIMEOUT"
            else:
                verdict += " NO-REPLAY-FILE"
        if code != 1:
            missed.append(name)
        print(f"{name:40s} {prop}  {verdict:18s} {summary}")
        sys.stdout.flush()
        shutil.rmtree(m, ignore_errors=True)
    print("not caught:", missed)
    return 1 if missed else 0


if __name__ == "__main__":
    sys.exit(main())
