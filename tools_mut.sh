#!/bin/sh
# usage: tools_mut.sh <python-snippet-file-or-'-'> <check ids...> ; applies the edit to a scratch copy of /repo/src and runs checks
# the snippet gets variable SRC = scratch src dir
set -e
M=/tmp/mut; rm -rf $M; mkdir -p $M; cp -r /repo/src $M/src
SRC=$M/src /venv/bin/python "$1"
shift
for c in "$@"; do VERIF_REPO=$M /verif/check $c --tier quick 2>&1 | grep -v "^  " | tail -3 | cut -c1-300; done
rm -rf $M /tmp/verif-scratch-out
