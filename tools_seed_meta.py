#!/venv/bin/python
"""usage: tools_seed_meta.py <seed-id> <property> <origin> <needs> <caught_by json-list> [note]
Writes seeded/<seed-id>/meta.json from the confirmation log, and regenerates seeded/README.md."""
import glob
import json
import os
import re
import sys

ROOT = os.path.join(os.path.dirname(os.path.abspath(__file__)), "seeded")


def write_meta(argv):
    sid, prop, origin, needs, caught = argv[:5]
    note = argv[5] if len(argv) > 5 else ""
    d = os.path.join(ROOT, sid)
    log = open(os.path.join(d, "confirm.log")).read() if os.path.exists(os.path.join(d, "confirm.log")) else ""
    suite_part = log.split("-- repository test suite", 1)[-1]
    suite = re.findall(r"=+ (.*(?:passed|failed).*) in [\d.]+s", suite_part)
    summ = re.search(r"demo_without_exit=(\d+) demo_with_exit=(\d+)", log)
    demo = [f for f in os.listdir(d) if f.startswith("demo")]
    meta = {
        "id": sid,
        "property": prop,
        "origin": origin,
        "patch": "patch.diff",
        "demonstration": demo[0] if demo else None,
        "needs_to_manifest": needs,
        "confirmed": {
            "how": "tools_seed_confirm.sh: patch applied to a fresh scratch worktree of /repo HEAD; repository suite run "
                   "with the change (private network namespace with a veth pair, where the unmodified tree gives 295 passed); demonstration run without and with the change",
            "suite_with_change": suite[-1] if suite else None,
            "suite_failures": re.findall(r"^(?:FAILED|ERROR) (.*)$", suite_part, re.M),
            "demo_exit_without_change": int(summ.group(1)) if summ else None,
            "demo_exit_with_change": int(summ.group(2)) if summ else None,
        },
        "checks_run": "tools_seed_eval.sh patch.diff <checks> (scratch copy of /repo/src with the patch, VERIF_REPO)",
        "caught_by": json.loads(caught),
        "note": note,
    }
    with open(os.path.join(d, "meta.json"), "w") as f:
        json.dump(meta, f, indent=1)


def readme():
    rows = []
    for m in sorted(glob.glob(os.path.join(ROOT, "*", "meta.json"))):
        x = json.load(open(m))
        c = x["confirmed"]
        rows.append(f"| {x['id']} | {x['property']} | {x['needs_to_manifest']} | {c.get('suite_with_change')} | "
                    f"{c.get('demo_exit_without_change')}/{c.get('demo_exit_with_change')} | {', '.join(x['caught_by']) or 'MISSED'} | {x.get('note','')} |")
    with open(os.path.join(ROOT, "README.md"), "w") as f:
        f.write("# Seeded property-breaking changes\n\nEach directory holds `patch.diff` (never applied to /repo itself), the "
                "demonstration written by the independent sub-agent that produced the change, its notes, `confirm.log` (my own "
                "confirmation: suite passes with the change, demo passes without / fails with it) and `meta.json`.\n"
                "Origin `agent` = produced by a fresh sub-agent that saw only the property text and a scratch worktree.\n\n"
                "| id | property | needs to manifest | repo suite with change | demo exit without/with | caught by (quick tier unless noted) | note |\n"
                "|---|---|---|---|---|---|---|\n" + "\n".join(rows) + "\n")


if __name__ == "__main__":
    if len(sys.argv) > 1:
        write_meta(sys.argv[1:])
    readme()
