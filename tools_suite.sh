#!/bin/sh
# usage: tools_suite.sh [dir]   runs the repository's own suite of <dir> (default /repo) in a private network namespace
V=${1:-/repo}
unshare -n sh -c "ip link set lo up; ip link add v0 type veth peer name v1 && ip addr add 10.9.9.1/24 dev v0 && ip -6 addr add fd99::1/64 dev v0 nodad; ip link set v0 up; ip link set v1 up; ip route add default dev v0; ip -6 route add default dev v0; sleep 3; cd $V; PYTHONPATH=$V/src timeout 1500 /venv/bin/python -m pytest -q -p no:cacheprovider --no-cov --timeout=900 -rf tests 2>&1" | grep -E "^(FAILED|ERROR)|passed|failed" | tail -8
