#!/venv/bin/python
"""usage: tools_seed_tasks.py <round-letter>
Creates one scratch git worktree of /repo per property under /tmp/wt/<ID><letter> and writes the TASK.md a fresh
sub-agent gets: the property text, nothing from /verif, and the list of ideas already seeded (seeded/tried.json)."""
import json
import os
import subprocess
import sys

HERE = os.path.dirname(os.path.abspath(__file__))
letter = sys.argv[1]
props = [json.loads(l) for l in open(os.path.join(HERE, "properties.jsonl"))]
tried = json.load(open(os.path.join(HERE, "seeded", "tried.json")))
os.makedirs("/tmp/wt", exist_ok=True)
for p in props:
    pid = p["id"]
    wt = f"/tmp/wt/{pid}{letter}"
    if not os.path.exists(wt):
        subprocess.run(["git", "-C", "/repo", "worktree", "add", "-q", "--detach", wt, "HEAD"], check=True)
    anchors = p["anchors"]
    others = "".join(f"* {x}\n" for x in tried.get(pid, []))
    task = f"""# Task: seed a realistic property-breaking change into python-zeroconf

You are working in a scratch git worktree of the python-zeroconf repository: `{wt}` (work ONLY inside this
directory; do not read or write `/verif`, and do not modify `/repo`).

## The property (id {pid}): {p['title']}

**Statement.** {p['statement']}

**Quantified over.** {p['quantifier']['text']}

**Why the existing tests cannot settle it.** {p['why_tests_cant']}

**Where the code that is meant to make it hold lives.** files: {', '.join(anchors['files'])}
mechanisms: {json.dumps(anchors['mechanism'], indent=1)}

## What to produce

Other engineers have already seeded these ideas for this property - choose something DIFFERENT, in a different mechanism or
code site (look at the less obvious files among those listed, at interactions between two modules, and at state that survives
from an earlier operation):
{others}
Make ONE source change under `{wt}/src/zeroconf/` that **breaks this property** while the package still imports and the
repository's own test suite still passes. It should be a *realistic* regression (the kind a plausible refactor, optimisation
or "simplification" could introduce), and it must need **something specific to manifest** - a particular interleaving or
timing, a fault at a particular point, a multi-step sequence of operations, an unusual input, or two cooperating sites that
each look fine alone - not something ordinary use would expose at once. Avoid trivially loud changes (e.g. making a function
always raise). Prefer a change that is small (a few lines).

Also write a **demonstration**: a small standalone program or pytest file `{wt}/demo_{pid.lower()}.py` that fails (non-zero exit
/ failing assertion) WITH your change and passes WITHOUT it (verify both; do NOT use `git stash` - it is shared between
worktrees - use `git diff -- src > mutant.diff && git apply -R mutant.diff` to remove your change and `git apply mutant.diff`
to restore it). The demonstration should exercise the real library code; it may use mocks of time/sockets, call internal
APIs, or use real loopback networking.

## How to run things

* Python: `/venv/bin/python` (3.12). To import the package from this worktree rather than the installed copy use
  `PYTHONPATH={wt}/src`.
* The repository's test suite (takes ~2 minutes; run it in its own network namespace so that parallel runs elsewhere on this
  machine cannot disturb it - the tests use real multicast sockets):
  `cd {wt} && unshare -n sh -c 'ip link set lo up; PYTHONPATH={wt}/src /venv/bin/python -m pytest -q -p no:cacheprovider --no-cov --timeout=900 tests 2>&1 | tail -5'`
  NOTE: inside such a loopback-only namespace FIVE tests fail for environmental reasons even on the unmodified tree
  (`tests/test_core.py::Framework::test_launch_and_close`, `..._context_manager`, `..._v4_v6`, `test_close_multiple_times` and
  `tests/services/test_types.py::test_integration_with_listener_ipv6`: no multicast route / no IPv6). So the unmodified tree gives
  `5 failed, 290 passed, 2 skipped` there (outside a namespace it gives `295 passed, 2 skipped`). Your change must not add any
  failure beyond exactly these five; I will re-run the full suite in a complete namespace afterwards. Run your demonstration
  the same way (inside `unshare -n sh -c 'ip link set lo up; ...'`) if it uses the network.
* There is no network access and nothing can be installed.

## Deliverables (all inside `{wt}`)

1. the modified source (leave it applied in the worktree, do NOT commit),
2. `{wt}/mutant.diff` = output of `git diff -- src` for your change,
3. `{wt}/demo_{pid.lower()}.py` (see above),
4. `{wt}/NOTES.md`: what you changed and why it breaks the property, what specific circumstances are needed for it to
   manifest, the exact commands you ran and their results (test suite with the change: pass count; demo with the change: fails;
   demo without: passes).

Finish with a short report of the same. If your first idea turns out to break existing tests, try another one. If, while
reading the code, you notice that the UNMODIFIED tree already violates the property for some input or schedule, say so in a
separate "side finding" paragraph (with the input) - but still deliver a seeded change.
"""
    open(f"{wt}/TASK.md", "w").write(task)
print("ok", len(props))
