import sys, gc, collections, struct, logging
from asyncio import events
from vloop_proto import VLoop, Net, install
from zeroconf import DNSOutgoing, DNSIncoming, DNSQuestion, DNSPointer, DNSText, DNSService, DNSAddress, DNSNsec, DNSHinfo, ServiceInfo, const
from zeroconf.asyncio import AsyncZeroconf, AsyncServiceBrowser, AsyncServiceInfo
T = "_a._tcp.local."; N = "x._a._tcp.local."
def world():
    loop = VLoop(); loop.net = Net(loop); events._set_running_loop(loop); install(loop)
    a = AsyncZeroconf(); zc = a.zeroconf; loop.run_ready()
    info = ServiceInfo(T, N, 80, properties={'a': 'b'}, server="h.local.", addresses=[b"\1\1\1\1"])
    async def reg():
        tk = await zc.async_register_service(info, cooperating_responders=True); await tk
    loop.create_task(reg())
    class L:
        def add_service(self, *a): pass
        def remove_service(self, *a): pass
        def update_service(self, *a): pass
    AsyncServiceBrowser(zc, [T, "_b._tcp.local."], listener=L())
    loop.advance_to(loop.time() + 20)
    async def look():
        await AsyncServiceInfo("_b._tcp.local.", "z._b._tcp.local.").async_request(zc, 3000)
    loop.create_task(look()); loop.run_ready()
    return loop, zc
def seeds():
    s = []
    q = DNSOutgoing(const._FLAGS_QR_QUERY, multicast=False, id_=7); q.add_question(DNSQuestion(T, 12, 1)); q.add_question(DNSQuestion(N, 33, 0x8001)); s.append(q.packets()[0])
    q = DNSOutgoing(const._FLAGS_QR_QUERY); q.add_question(DNSQuestion(T, 12, 1)); q.add_answer_at_time(DNSPointer(T, 12, 1, 4500, N), 0); s.append(q.packets()[0])
    q = DNSOutgoing(const._FLAGS_QR_QUERY | const._FLAGS_TC); q.add_question(DNSQuestion("h.local.", 255, 1)); s.append(q.packets()[0])
    q = DNSOutgoing(const._FLAGS_QR_QUERY); q.add_question(DNSQuestion(T, 12, 0x8001)); q.add_authorative_answer(DNSPointer(T, 12, 1, 4500, N)); s.append(q.packets()[0])
    r = DNSOutgoing(const._FLAGS_QR_RESPONSE | const._FLAGS_AA)
    for rec in [DNSPointer("_b._tcp.local.", 12, 1, 4500, "z._b._tcp.local."), DNSService("z._b._tcp.local.", 33, 0x8001, 120, 0, 0, 80, "hz.local."), DNSText("z._b._tcp.local.", 16, 0x8001, 4500, b"\1a"),
                DNSAddress("hz.local.", 1, 0x8001, 120, b"\2\2\2\2"), DNSAddress("hz.local.", 28, 0x8001, 120, b"\xfe\x80" + b"\0" * 13 + b"\1"), DNSNsec("hz.local.", 47, 0x8001, 120, "hz.local.", [1, 28]), DNSHinfo("hz.local.", 13, 1, 120, "cpu", "os")]:
        r.add_answer_at_time(rec, 0)
    s.append(r.packets()[0])
    return s
vals = [0x00, 0x01, 0x03, 0x0c, 0x10, 0x1c, 0x21, 0x2f, 0x3f, 0x40, 0x7f, 0x80, 0xbf, 0xc0, 0xc1, 0xff]
exc = collections.Counter(); n = 0; examples = {}
for si, seed in enumerate(seeds()):
    loop, zc = world(); proto = zc.engine.protocols[0]
    for pos in range(len(seed)):
        for v in vals:
            if seed[pos] == v: continue
            d = seed[:pos] + bytes([v]) + seed[pos + 1:]
            for src in (("10.0.0.9", 5353), ("10.0.0.9", 1234), ("fe80::1", 5353, 0, 3)):
                n += 1
                before = len(loop.exceptions)
                loop.call_soon(proto.datagram_received, d, src); loop.advance_to(loop.time() + 0.7)
                for e in loop.exceptions[before:]:
                    k = type(e.get('exception')).__name__ + ":" + str(e.get('exception'))[:60]
                    exc[k] += 1; examples.setdefault(k, (si, pos, v, src))
    for cut in range(len(seed)):
        n += 1; before = len(loop.exceptions)
        loop.call_soon(proto.datagram_received, seed[:cut], ("10.0.0.9", 1234)); loop.advance_to(loop.time() + 0.7)
        for e in loop.exceptions[before:]:
            k = type(e.get('exception')).__name__ + ":" + str(e.get('exception'))[:60]; exc[k] += 1; examples.setdefault(k, (si, 'cut', cut))
    events._set_running_loop(None)
print("datagrams", n); print(exc); print(examples)
