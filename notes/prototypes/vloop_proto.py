"""Throwaway prototype: virtual-time loop + fake transports + N zeroconf hosts."""
import asyncio, heapq, sys, time as _time, random, socket, collections
from asyncio import events, base_events

class FakeTimeMod:
    def __init__(self, loop): self.loop = loop
    def monotonic(self): return self.loop.time()
    def get_clock_info(self, n): return _time.get_clock_info(n)

class FakeSock:
    def __init__(self, host, idx, family=socket.AF_INET):
        self.family = family; self.host = host; self.idx = idx
    def fileno(self): return 100 + self.idx
    def getsockname(self): return (self.host, 5353) if self.family == socket.AF_INET else (self.host, 5353, 0, 0)
    def __repr__(self): return f"<FakeSock {self.host}>"

class FakeTransport(asyncio.DatagramTransport):
    def __init__(self, loop, sock, protocol, net):
        super().__init__(extra={'socket': sock, 'sockname': sock.getsockname()})
        self.loop = loop; self.sock = sock; self.protocol = protocol; self.net = net; self.closed = False
    def sendto(self, data, addr=None):
        if self.closed: return
        self.net.sent(self, bytes(data), addr)
    def close(self):
        self.closed = True
    def is_closing(self): return self.closed
    def abort(self): self.closed = True

class VLoop(base_events.BaseEventLoop):
    def __init__(self):
        super().__init__()
        self._vtime = 1000.0
        self.exceptions = []
        self.set_exception_handler(lambda loop, ctx: self.exceptions.append(ctx))
        self.net = None
    def time(self): return self._vtime
    def _process_events(self, e): pass
    def _write_to_self(self): pass
    async def create_datagram_endpoint(self, protocol_factory, local_addr=None, remote_addr=None, *, sock=None, **kw):
        protocol = protocol_factory()
        tr = FakeTransport(self, sock, protocol, self.net)
        self.net.attach(tr)
        self.call_soon(protocol.connection_made, tr)
        await asyncio.sleep(0)
        return tr, protocol
    # manual stepping
    def run_ready(self):
        n = 0
        while self._ready:
            h = self._ready.popleft()
            if not h._cancelled:
                h._run()
            n += 1
        return n
    def next_timer(self):
        while self._scheduled and self._scheduled[0]._cancelled:
            heapq.heappop(self._scheduled)._scheduled = False
        return self._scheduled[0]._when if self._scheduled else None
    def advance_to(self, t):
        """run everything up to and including virtual time t"""
        self.run_ready()
        while True:
            nt = self.next_timer()
            if nt is None or nt > t: break
            self._vtime = max(self._vtime, nt)
            while self._scheduled and self._scheduled[0]._when <= self._vtime:
                h = heapq.heappop(self._scheduled); h._scheduled = False
                if not h._cancelled: self._ready.append(h)
            self.run_ready()
        self._vtime = max(self._vtime, t)
    def is_running(self): return True

class Net:
    def __init__(self, loop):
        self.loop = loop; self.transports = []; self.trace = []
        self.delay = 0.001
    def attach(self, tr): self.transports.append(tr)
    def sent(self, tr, data, addr):
        self.trace.append((self.loop.time(), tr.sock.host, addr, data))
        dst, port = addr[0], addr[1]
        for other in self.transports:
            if other.closed: continue
            if dst in ('224.0.0.251',) or other.sock.host == dst:
                # multicast loops back to the sender as well
                self.loop.call_at(self.loop.time() + self.delay, self._deliver, other, data, (tr.sock.host, 5353))
    def _deliver(self, other, data, src):
        if not other.closed:
            other.protocol.datagram_received(data, src)

def install(loop):
    import zeroconf._utils.time as zt
    zt.time = FakeTimeMod(loop)
    import zeroconf._core as core
    cnt = [0]
    def fake_create_sockets(interfaces, unicast, ip_version, apple_p2p=False):
        cnt[0] += 1
        s = FakeSock(f"10.0.0.{cnt[0]}", cnt[0])
        return None, [s]   # listen socket None: respond socket doubles as reader
    core.create_sockets = fake_create_sockets
    core.autodetect_ip_version = lambda i: None

def main():
    from zeroconf import ServiceInfo, ServiceStateChange
    from zeroconf.asyncio import AsyncZeroconf, AsyncServiceBrowser
    t0 = _time.perf_counter()
    N = int(sys.argv[1]) if len(sys.argv) > 1 else 20
    for it in range(N):
        loop = VLoop(); loop.net = Net(loop)
        events._set_running_loop(loop)
        install(loop)
        try:
            a = AsyncZeroconf(); b = AsyncZeroconf()
            log = []
            class L:
                def add_service(self, zc, t, n): log.append((loop.time(), 'add', n))
                def remove_service(self, zc, t, n): log.append((loop.time(), 'rm', n))
                def update_service(self, zc, t, n): log.append((loop.time(), 'upd', n))
            br = AsyncServiceBrowser(b.zeroconf, "_http._tcp.local.", listener=L())
            info = ServiceInfo("_http._tcp.local.", "Foo._http._tcp.local.", 80, properties={'a': 'b'}, server="foo.local.", addresses=[b"\x0a\x00\x00\x01"])
            async def reg():
                t = await a.async_register_service(info); await t
            async def unreg():
                t = await a.async_unregister_service(info); await t
            task = loop.create_task(reg())
            loop.advance_to(loop.time() + 5)
            task2 = loop.create_task(unreg())
            loop.advance_to(loop.time() + 20)
            c1 = loop.create_task(a.async_close()); c2 = loop.create_task(b.async_close())
            loop.advance_to(loop.time() + 5)
            assert c1.done() and c2.done(), (c1, c2)
            loop.advance_to(loop.time() + 5000)
        finally:
            events._set_running_loop(None)
        if it == 0:
            print(log); print(len(loop.net.trace), "datagrams", loop.exceptions)
            for t, h, addr, d in loop.net.trace[:40]:
                print(round(t-1000, 3), h, addr, len(d))
    dt = _time.perf_counter() - t0
    print(f"{N} executions {dt:.3f}s  {dt/N*1000:.2f} ms/exec")
if __name__ == "__main__": main()
