import asyncio, struct
from asyncio import events
from vloop_proto import VLoop, Net, install
from zeroconf import ServiceInfo, DNSOutgoing, DNSIncoming, DNSQuestion, DNSPointer, DNSText, DNSAddress, const
from zeroconf.asyncio import AsyncZeroconf, AsyncServiceBrowser

def mk():
    loop = VLoop(); loop.net = Net(loop); events._set_running_loop(loop); install(loop); return loop
def show(loop, since):
    for t, h, addr, d in loop.net.trace:
        if t >= since:
            inc = DNSIncoming(d)
            print("   ", round(t-1000,3), h, addr[0], "Q" if inc.is_query() else "R", [(type(r).__name__, r.name, r.ttl) for r in inc.answers()], [q.name for q in inc.questions])

# ---- C08: QM PTR query arrives 50 ms before unregister; queued answer is sent after goodbyes?
loop = mk()
a = AsyncZeroconf(); zc = a.zeroconf
info = ServiceInfo("_a._tcp.local.", "x._a._tcp.local.", 80, server="h.local.", addresses=[b"\1\2\3\4"])
async def reg():
    t = await a.async_register_service(info); await t
loop.create_task(reg()); loop.advance_to(loop.time() + 10)
proto = zc.engine.protocols[0]
q = DNSOutgoing(const._FLAGS_QR_QUERY); q.add_question(DNSQuestion("_a._tcp.local.", const._TYPE_PTR, const._CLASS_IN))
t_q = loop.time()
proto.datagram_received(q.packets()[0], ("10.0.0.9", 5353))
async def unreg():
    t = await a.async_unregister_service(info); await t
loop.advance_to(loop.time() + 0.01)
loop.create_task(unreg())
loop.advance_to(loop.time() + 5)
print("C08 trace after query:"); show(loop, t_q)
events._set_running_loop(None)

# ---- C10: 4500 s record learned at 20 s, 1200 s record learned at 60 s
loop = mk()
b = AsyncZeroconf(); zc = b.zeroconf
log = []
class L:
    def add_service(self, zc, t, n): log.append((round(loop.time()-1000,1), 'add', n))
    def remove_service(self, zc, t, n): log.append((round(loop.time()-1000,1), 'rm', n))
    def update_service(self, zc, t, n): pass
br = AsyncServiceBrowser(zc, "_a._tcp.local.", listener=L())
proto = None
def resp(records):
    out = DNSOutgoing(const._FLAGS_QR_RESPONSE | const._FLAGS_AA)
    for r in records: out.add_answer_at_time(r, 0)
    return out.packets()[0]
loop.advance_to(1020.0)
proto = zc.engine.protocols[0]
proto.datagram_received(resp([DNSPointer("_a._tcp.local.", 12, 1, 4500, "long._a._tcp.local.")]), ("10.0.0.9", 5353))
loop.advance_to(1060.0)
proto.datagram_received(resp([DNSPointer("_a._tcp.local.", 12, 1, 1200, "short._a._tcp.local.")]), ("10.0.0.9", 5353))
loop.advance_to(1000.0 + 6000)
print("C10 callbacks:", log)
print("C10 queries sent at:", [round(t-1000,1) for t,h,addr,d in loop.net.trace if DNSIncoming(d).is_query()])
events._set_running_loop(None)
