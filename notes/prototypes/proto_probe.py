import sys
from asyncio import events
from vloop_proto import VLoop, Net, install
from zeroconf import DNSOutgoing, DNSIncoming, DNSQuestion, DNSPointer, ServiceInfo, const, NonUniqueNameException
from zeroconf.asyncio import AsyncZeroconf
T = "_a._tcp.local."; N = "x._a._tcp.local."
def run(tc, allow, pre=()):
    loop = VLoop(); loop.net = Net(loop); events._set_running_loop(loop); install(loop)
    try:
        a = AsyncZeroconf(); zc = a.zeroconf; loop.run_ready(); loop.advance_to(loop.time() + 1)
        proto = zc.engine.protocols[0]
        def conflict(name):
            out = DNSOutgoing(const._FLAGS_QR_RESPONSE | const._FLAGS_AA); out.add_answer_at_time(DNSPointer(T, 12, 1, 4500, name), 0)
            proto.datagram_received(out.packets()[0] + bytes([len(name)]), ("10.0.0.9", 5353))
        for p in pre: conflict(p)
        info = ServiceInfo(T, N, 80, server="h.local.", addresses=[b"\1\1\1\1"])
        result = []
        async def reg():
            try:
                tk = await zc.async_register_service(info, allow_name_change=allow); await tk; result.append(('ok', info.name))
            except NonUniqueNameException: result.append(('nonunique',))
        t0 = loop.time(); mark = len(loop.net.trace)
        loop.create_task(reg())
        if tc is not None: loop.call_at(t0 + tc / 1000, conflict, N)
        loop.advance_to(t0 + 5)
        tr = []
        for ts, h, addr, d in loop.net.trace[mark:]:
            inc = DNSIncoming(d)
            if inc.is_query(): tr.append((round((ts - t0) * 1000), 'P', [r.alias for r in inc.answers()]))
            else: tr.append((round((ts - t0) * 1000), 'A', sorted({getattr(r, 'alias', None) for r in inc.answers()} - {None})))
        return result, tr
    finally:
        events._set_running_loop(None)
for allow in (False, True):
    for tc in (None, 0, 1, 174, 175, 176, 349, 350, 351, 500):
        print(allow, tc, *run(tc, allow))
print(run(None, True, pre=(N, "x-2._a._tcp.local.")))
