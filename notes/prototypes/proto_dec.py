import struct, itertools, sys, time as _t, collections
from zeroconf import DNSIncoming, DNSPointer, DNSText, DNSService, DNSAddress, DNSHinfo, DNSNsec
from proto_codec import strict, Bad, rec_tuple
alpha = [0x00, 0x01, 0x02, 0x0c, 0x1c, 0x3f, 0x40, 0x61, 0xc0, 0xc1, 0xff]
stat = collections.Counter(); ex = {}
def lib(d):
    inc = DNSIncoming(d)
    ans = inc.answers()
    qs = [(q.name, q.type, q.class_ | (0x8000 if q.unique else 0)) for q in inc.questions]
    return inc.valid, qs, [rec_tuple(r, True) for r in ans]
def compare(d, tag):
    try:
        v, qs, rs = lib(d)
    except Exception as e:
        stat[tag + ':EXC:' + type(e).__name__] += 1; ex.setdefault(tag + ':EXC:' + type(e).__name__, d); return
    for n in [q[0] for q in qs] + [r[0] for r in rs]:
        if len(n) > 253: stat[tag + ':longname'] += 1
    try:
        idd, fl, sq, secs = strict(d)
    except Bad:
        stat[tag + ':strict-rejects'] += 1; return
    flat = [x for s in secs for x in s]
    if any(x[1] not in (1, 28, 12, 5, 16, 33, 13, 47) for x in flat):
        stat[tag + ':unsupported'] += 1; return
    if not v: stat[tag + ':DISAGREE lib-invalid'] += 1; ex.setdefault(tag + ':DISAGREE lib-invalid', d); return
    if qs != sq or rs != flat:
        stat[tag + ':DISAGREE content'] += 1; ex.setdefault(tag + ':DISAGREE content', (d, rs, flat)); return
    stat[tag + ':agree'] += 1
t0 = _t.perf_counter()
# questions: every body up to length 6
hdr = struct.pack(">HHHHHH", 0, 0, 1, 0, 0, 0)
for L in range(0, 7):
    for body in itertools.product(alpha, repeat=L): compare(hdr + bytes(body), 'q')
print("questions done", sum(stat.values()), "%.1fs" % (_t.perf_counter() - t0))
# answers: owner name 'a.' or pointer to it; fixed type; every rdlength/rdata up to 4
hdr = struct.pack(">HHHHHH", 0, 0x8400, 0, 1, 0, 0)
for t in (1, 28, 12, 16, 33, 13, 47, 99):
    for owner in (b"\x01a\x00", b"\x00"):
        for rl_decl in range(0, 6):
            for L in range(0, 5):
                for body in itertools.product(alpha, repeat=L):
                    d = hdr + owner + struct.pack(">HHIH", t, 1, 10, rl_decl) + bytes(body)
                    compare(d, 'r%d' % t)
print("%.1fs" % (_t.perf_counter() - t0))
for k, v in sorted(stat.items()): print(k, v)
for k, v in ex.items(): print(k, v if not isinstance(v, tuple) else (v[0].hex(), v[1], v[2]))
