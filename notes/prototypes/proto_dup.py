import itertools, sys, os, collections
from asyncio import events
from vloop_proto import VLoop, Net, install
from zeroconf import DNSOutgoing, DNSIncoming, DNSQuestion, DNSPointer, DNSText, DNSService, DNSAddress, ServiceInfo, const
from zeroconf.asyncio import AsyncZeroconf, AsyncServiceBrowser
import zeroconf._handlers.multicast_outgoing_queue as moq, zeroconf._listener as zl
if os.environ.get("FIX"): import fixpatch
T = "_a._tcp.local."; N = "x._a._tcp.local."; TB = "_b._tcp.local."; NB = "z._b._tcp.local."
def Q(flags=0, qs=(), ans=(), auth=(), mc=True, id_=0):
    o = DNSOutgoing(const._FLAGS_QR_QUERY | flags, multicast=mc, id_=id_)
    for q in qs: o.add_question(DNSQuestion(*q))
    for a in ans: o.add_answer_at_time(a, 0)
    for a in auth: o.add_authorative_answer(a)
    return o.packets()[0]
def R(recs):
    o = DNSOutgoing(const._FLAGS_QR_RESPONSE | const._FLAGS_AA)
    for r in recs: o.add_answer_at_time(r, 0)
    return o.packets()[0]
ptr = DNSPointer(T, 12, 1, 4500, N)
alpha = {
 'qm_ptr': (Q(qs=[(T, 12, 1)]), 5353), 'qu_ptr': (Q(qs=[(T, 12, 0x8001)]), 5353), 'mix': (Q(qs=[(T, 12, 0x8001), (N, 16, 1)]), 5353),
 'qm_srv': (Q(qs=[(N, 33, 1)]), 5353), 'legacy': (Q(qs=[(T, 12, 1)], mc=False, id_=9), 1234),
 'probe_qu': (Q(qs=[(T, 12, 0x8001)], auth=[ptr]), 5353), 'probe_qm': (Q(qs=[(T, 12, 1)], auth=[ptr]), 5353),
 'tc': (Q(flags=const._FLAGS_TC, qs=[(T, 12, 1)]), 5353), 'qm_ka': (Q(qs=[(T, 12, 1)], ans=[ptr]), 5353),
 'r_add': (R([DNSPointer(TB, 12, 1, 4500, NB), DNSService(NB, 33, 0x8001, 120, 0, 0, 80, "hz.local."), DNSAddress("hz.local.", 1, 0x8001, 120, b"\2\2\2\2")]), 5353),
 'r_bye': (R([DNSPointer(TB, 12, 1, 0, NB)]), 5353), 'r_flush': (R([DNSAddress("hz.local.", 1, 0x8001, 120, b"\2\2\2\3")]), 5353),
}
def run(hist, dup, age, jit):
    loop = VLoop(); loop.net = Net(loop); events._set_running_loop(loop); install(loop)
    moq.RAND_INT = lambda a, b: (a, b)[jit]
    class FR:
        @staticmethod
        def randint(a, b): return (a, b)[jit]
    zl.random = FR
    import zeroconf._services.browser as zb; zb.random = FR
    try:
        a = AsyncZeroconf(); zc = a.zeroconf; loop.run_ready()
        info = ServiceInfo(T, N, 80, properties={'a': 'b'}, server="h.local.", addresses=[b"\1\1\1\1"])
        async def reg():
            tk = await zc.async_register_service(info, cooperating_responders=True); await tk
        loop.create_task(reg())
        log = []
        class L:
            def add_service(self, z, t, n): log.append((round(loop.time(), 4), 'add', n))
            def remove_service(self, z, t, n): log.append((round(loop.time(), 4), 'rm', n))
            def update_service(self, z, t, n): log.append((round(loop.time(), 4), 'upd', n))
        AsyncServiceBrowser(zc, TB, listener=L())
        loop.advance_to(loop.time() + age)
        proto = zc.engine.protocols[0]; mark = len(loop.net.trace)
        for gap, key in hist:
            loop.advance_to(loop.time() + gap / 1000)
            d, port = alpha[key]
            proto.datagram_received(d, ("10.0.0.9", port))
            if dup: proto.datagram_received(d, ("10.0.0.9", port))
            loop.run_ready()
        loop.advance_to(loop.time() + 3)
        tr = [(round(ts, 4), ad[0], ad[1], d) for ts, h, ad, d in loop.net.trace[mark:]]
        return tr, log, loop.exceptions
    finally:
        events._set_running_loop(None)
def classify(ref, dupd, hist):
    cr, cd = collections.Counter(ref), collections.Counter(dupd)
    extra = cd - cr; missing = cr - cd
    if not extra and not missing: return 'same'
    if not missing and all(e[1] != '224.0.0.251' for e in extra): return 'extra-unicast'
    if not missing and all(e[1] != '224.0.0.251' or cr[e] >= 1 for e in extra): return 'extra-mcast-identical(+unicast)'
    return 'other'
depth = int(sys.argv[1]); res = collections.Counter(); ex = {}
for age in (5, 2000):
    for jit in (0, 1):
        for hist in itertools.product([(g, k) for g in (1, 500, 1001) for k in alpha], repeat=depth):
            r = run(hist, False, age, jit); d = run(hist, True, age, jit)
            c = classify(r[0], d[0], hist)
            if r[1] != d[1]: c += '+cb-diff'
            if d[2] or r[2]: c += '+exc'
            res[c] += 1
            trig = tuple(k for g, k in hist)
            ex.setdefault(c, collections.Counter())[trig] += 1
print(res)
for c, v in ex.items():
    if c != 'same': print(c, v.most_common(12))

print("---- detail for ('tc','mix')")
shown = 0
for age in (5, 2000):
    for jit in (0, 1):
        for g2 in (1, 500, 1001):
            hist = ((1, 'tc'), (g2, 'mix'))
            r = run(hist, False, age, jit); d = run(hist, True, age, jit)
            if classify(r[0], d[0], hist) == 'other' and shown < 3:
                shown += 1
                def fmt(tr):
                    return [(round(t - tr[0][0], 3) if tr else 0, a, p, [(type(x).__name__[3:], x.ttl) for x in DNSIncoming(dd).answers()]) for t, a, p, dd in tr]
                print("age", age, "jit", jit, "gap", g2); print("  ref", fmt(r[0])); print("  dup", fmt(d[0]))
