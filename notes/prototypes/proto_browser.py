import itertools, sys, time as _t, os
from asyncio import events
from vloop_proto import VLoop, Net, install
from zeroconf import DNSOutgoing, DNSIncoming, DNSPointer, DNSText, DNSService, DNSAddress, const
from zeroconf.asyncio import AsyncZeroconf, AsyncServiceBrowser
if os.environ.get("FIX"): import fixpatch
T = "_a._tcp.local."
def P(alias, ttl, cl=1): return DNSPointer(T, 12, cl, ttl, alias)
X, Xc, Y = "x._a._tcp.local.", "X._a._tcp.local.", "y._a._tcp.local."
dg = [
 [P(X, 4500)], [P(X, 0)], [P(X, 1)], [P(Xc, 4500)], [P(Xc, 0)], [P(Y, 4500)], [P(Y, 0)],
 [P(X, 4500, 0x8001)], [P(Y, 4500, 0x8001)],
 [P(X, 4500), P(Y, 4500)], [P(X, 0), P(Y, 4500)], [P(X, 4500), P(X, 4500)], [P(X, 0), P(X, 4500)], [P(X, 4500), P(X, 0)],
 [DNSService(X, 33, 0x8001, 120, 0, 0, 80, "h.local."), DNSText(X, 16, 0x8001, 4500, b"\1a"), DNSAddress("h.local.", 1, 0x8001, 120, b"\1\1\1\1")],
]
steps = [1, 1001, 10000, 1125000, 4500000]
evs = [('d', i) for i in range(len(dg))] + [('t', s) for s in steps]
def run(hist):
    loop = VLoop(); loop.net = Net(loop); events._set_running_loop(loop); install(loop)
    try:
        a = AsyncZeroconf(); zc = a.zeroconf; loop.run_ready()
        log = []; problems = []
        class L:
            def add_service(self, z, t, n):
                log.append(('add', n.lower()))
                if not any(r.alias.lower() == n.lower() for r in z.cache.entries_with_name(t) if isinstance(r, DNSPointer)): problems.append(('add-not-in-cache', n))
            def remove_service(self, z, t, n): log.append(('rm', n.lower()))
            def update_service(self, z, t, n): log.append(('upd', n.lower()))
        AsyncServiceBrowser(zc, T, listener=L()); loop.run_ready()
        proto = zc.engine.protocols[0]; seq = 0
        for kind, arg in hist:
            if kind == 'd':
                out = DNSOutgoing(const._FLAGS_QR_RESPONSE | const._FLAGS_AA); seq += 1
                for r in dg[arg]: out.add_answer_at_time(r, 0)
                out.add_additional_answer(DNSText("uniq.local.", 16, 1, 1, bytes([seq])))  # make bytes distinct
                proto.datagram_received(out.packets()[0], ("10.0.0.9", 5353)); loop.run_ready()
            else:
                loop.advance_to(loop.time() + arg / 1000)
            live = {}
            for k, n in log:
                if k == 'add':
                    if live.get(n): problems.append(('double-add', n))
                    live[n] = True
                elif k == 'rm':
                    if not live.get(n): problems.append(('rm-without-add', n))
                    live[n] = False
            liveset = {n for n, v in live.items() if v}
            cached = {r.alias.lower() for r in zc.cache.entries_with_name(T) if isinstance(r, DNSPointer)}
            if liveset != cached: problems.append(('live!=cache', sorted(liveset), sorted(cached)))
            if problems: return (hist, problems, log)
        return None
    finally:
        events._set_running_loop(None)
depth = int(sys.argv[1]); t0 = _t.perf_counter(); n = 0; bad = []
for hist in itertools.product(evs, repeat=depth):
    n += 1; r = run(hist)
    if r: bad.append(r)
print("histories", n, "bad", len(bad), "%.1fs" % (_t.perf_counter() - t0))
kinds = {}
for h, p, log in bad:
    kinds.setdefault(p[0][0], []).append((h, p, log))
for k, v in kinds.items():
    print(k, len(v))
    for h, p, log in v[:5]:
        print("   ", [(kk, [(type(r).__name__[3:6], getattr(r,'alias',''), r.ttl, r.unique) for r in dg[a]] if kk == 'd' else a) for kk, a in h], p, log)
