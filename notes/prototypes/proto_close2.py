import gc, sys
from asyncio import events
from proto_close import VLoop2
from vloop_proto import Net, install
from zeroconf import ServiceInfo, DNSIncoming, DNSOutgoing, DNSQuestion, DNSPointer, DNSText, const
from zeroconf.asyncio import AsyncZeroconf, AsyncServiceBrowser, AsyncServiceInfo
import zeroconf._core as core, zeroconf._engine as eng
T = "_a._tcp.local."
def run(close_at, mode, collect=False):
    loop = VLoop2(); loop.net = Net(loop); install(loop)
    drv = lambda aw, lp, timeout: lp.drive(aw)
    core.run_coro_with_timeout = drv; eng.run_coro_with_timeout = drv
    events._set_running_loop(loop); a = AsyncZeroconf(); zc = a.zeroconf; events._set_running_loop(None)
    log = []; instants = set()
    class L:
        def add_service(self, z, t, n): log.append((loop.time(), 'add', n))
        def remove_service(self, z, t, n): log.append((loop.time(), 'rm', n))
        def update_service(self, z, t, n): log.append((loop.time(), 'upd', n))
    info = ServiceInfo(T, "x." + T, 80, server="h.local.", addresses=[b"\1\2\3\4"])
    info2 = ServiceInfo(T, "y." + T, 80, server="h.local.", addresses=[b"\1\2\3\4"])
    async def setup():
        AsyncServiceBrowser(zc, [T, "_b._tcp.local."], listener=L())
        await a.async_register_service(info)
        async def look():
            r = await AsyncServiceInfo("_b._tcp.local.", "z._b._tcp.local.").async_request(zc, 3000); log.append((loop.time(), 'lookup-done', r))
        loop.create_task(look())
    T0 = loop.time(); loop.create_task(setup())
    def inject(kind):
        proto = zc.engine.protocols[0]
        if kind == 'qm':
            q = DNSOutgoing(const._FLAGS_QR_QUERY); q.add_question(DNSQuestion(T, 12, 1)); proto.datagram_received(q.packets()[0], ("10.0.0.9", 5353))
        elif kind == 'tc':
            q = DNSOutgoing(const._FLAGS_QR_QUERY | const._FLAGS_TC); q.add_question(DNSQuestion("x." + T, 16, 1)); proto.datagram_received(q.packets()[0], ("10.0.0.8", 5353))
        elif kind == 'resp':
            r = DNSOutgoing(const._FLAGS_QR_RESPONSE | const._FLAGS_AA); r.add_answer_at_time(DNSPointer("_b._tcp.local.", 12, 1, 4500, "z._b._tcp.local."), 0); proto.datagram_received(r.packets()[0], ("10.0.0.9", 5353))
        elif kind == 'reg2':
            loop.create_task(a.async_register_service(info2))
    for t, k in ((0.5, 'qm'), (0.9, 'tc'), (1.2, 'resp'), (1.4, 'qm'), (1.5, 'reg2'), (2.2, 'qm'), (2.3, 'tc')):
        loop.call_at(T0 + t, inject, k)
    if collect:
        while loop.time() < T0 + 16:
            nt = loop.next_timer()
            if nt is None or nt > T0 + 16: break
            instants.add(round(nt - T0, 4)); loop.advance_to(nt)
        return sorted(instants)
    loop.advance_to(T0 + close_at)
    pending_lookup_done = [e for e in log if e[1] == 'lookup-done']
    if mode == 'async': loop.drive(a.async_close())
    else: zc.close()
    t_closed = loop.time(); n_sent = len(loop.net.trace); n_cb = len(log)
    registered = [i for i in (info, info2)]
    # second close
    if mode == 'async': loop.drive(a.async_close())
    else: zc.close()
    # traffic at the dead sockets
    for dt in (0.1, 5, 100):
        loop.advance_to(t_closed + dt)
        for p in zc.engine.protocols:
            pass
    loop.advance_to(t_closed + 11000); gc.collect()
    late_cb = [e for e in log[n_cb:] if e[1] != 'lookup-done']
    return (len(loop.net.trace) - n_sent, late_cb, [str(e.get('exception') or e.get('message'))[:80] for e in loop.exceptions])
inst = run(None, None, collect=True)
print(len(inst), "instants", inst[:40])
bad = 0; n = 0
for t in inst:
    for d in (-0.001, 0, 0.001):
        for mode in ('async', 'sync'):
            if t + d <= 0: continue
            n += 1; r = run(t + d, mode)
            if r[0] or r[1] or r[2]:
                bad += 1
                if bad < 10: print("close_at", round(t + d, 4), mode, r)
print("runs", n, "bad", bad)
