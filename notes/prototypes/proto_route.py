import itertools, sys, struct, collections
from asyncio import events
from vloop_proto import VLoop, Net, install
from proto_codec import strict
from zeroconf import DNSOutgoing, DNSIncoming, DNSQuestion, DNSPointer, ServiceInfo, const
from zeroconf.asyncio import AsyncZeroconf
import zeroconf._handlers.multicast_outgoing_queue as moq
T = "_a._tcp.local."; N = "x._a._tcp.local."; H = "h.local."
def Q(qs, auth=False, id_=0x1234):
    o = DNSOutgoing(const._FLAGS_QR_QUERY, multicast=False, id_=id_)   # multicast=False so the id and QU bits are written as given
    for n, t, c in qs:
        q = DNSQuestion(n, t, c); o.add_question(q)
    if auth: o.add_authorative_answer(DNSPointer(T, 12, 1, 4500, N))
    d = bytearray(o.packets()[0])
    # set QU bits by hand (unicast DNSOutgoing strips them)
    return bytes(d)
def raw_query(qs, auth, id_):
    # independent encoder: no compression
    def nm(n): return b"".join(bytes([len(l)]) + l.encode() for l in n.rstrip(".").split(".")) + b"\0"
    body = b"".join(nm(n) + struct.pack(">HH", t, c) for n, t, c in qs)
    au = b""
    if auth: au = nm(T) + struct.pack(">HHIH", 12, 1, 4500, len(nm(N))) + nm(N)
    return struct.pack(">HHHHHH", id_, 0, len(qs), 0, 1 if auth else 0, 0) + body + au
def run(qs, auth, port, age_s, id_=0x1234):
    loop = VLoop(); loop.net = Net(loop); events._set_running_loop(loop); install(loop)
    moq.RAND_INT = lambda a, b: a
    try:
        a = AsyncZeroconf(); zc = a.zeroconf; loop.run_ready()
        info = ServiceInfo(T, N, 80, server=H, addresses=[b"\1\1\1\1"])
        async def reg():
            tk = await zc.async_register_service(info, cooperating_responders=True); await tk
        loop.create_task(reg()); loop.advance_to(loop.time() + 0.5)   # last announcement at 0.45 -> sighting at 0.451
        t_s = zc.cache.get(DNSPointer(T, 12, 1, 0, N)).created / 1000
        loop.advance_to(t_s + age_s)
        mark = len(loop.net.trace); tq = loop.time()
        zc.engine.protocols[0].datagram_received(raw_query(qs, auth, id_), ("10.0.0.9", port))
        loop.advance_to(tq + 3)
        outp = []
        for ts, h, ad, d in loop.net.trace[mark:]:
            idd, fl, q, secs = strict(d)
            outp.append((round((ts - tq) * 1000), 'M' if ad[0] == '224.0.0.251' else 'U:%s:%d' % ad[:2], idd, hex(fl), len(q), [(x[1], bool(x[2] & 0x8000)) for x in secs[0]], [(x[1], bool(x[2] & 0x8000)) for x in secs[2]]))
        return outp
    finally:
        events._set_running_loop(None)
PTR_QM, PTR_QU = (T, 12, 1), (T, 12, 0x8001)
SRV_QM, SRV_QU = (N, 33, 1), (N, 33, 0x8001)
for name, qs, auth in (("QM ptr", [PTR_QM], False), ("QU ptr", [PTR_QU], False), ("QU srv", [SRV_QU], False), ("QU+QM", [PTR_QU, SRV_QM], False), ("probe QU", [PTR_QU], True), ("probe QM", [PTR_QM], True)):
    for port in (5353, 1234):
        for age in (10.0, 1124.999, 1125.0, 1125.001):
            print(name, port, age, run(qs, auth, port, age))
