"""Prototype of C05/C06: BFS (tree, no dedup) over datagrams+clock steps vs a s.10 model."""
import itertools, sys, time as _t
from asyncio import events
from vloop_proto import VLoop, Net, install
from zeroconf import DNSOutgoing, DNSIncoming, DNSPointer, DNSText, DNSService, DNSAddress, const, RecordUpdateListener
from zeroconf.asyncio import AsyncZeroconf
import os
if os.environ.get("FIX"): import fixpatch

IN, FL = 1, 0x8001
def A(name, ip, ttl, cl=IN): return ('A', name, cl, ttl, ip)
def mk(rec):
    k, name, cl, ttl, rd = rec
    if k == 'A': return DNSAddress(name, 1, cl, ttl, rd)
    if k == 'PTR': return DNSPointer(name, 12, cl, ttl, rd)
    if k == 'TXT': return DNSText(name, 16, cl, ttl, rd)
    if k == 'SRV': return DNSService(name, 33, cl, ttl, 0, 0, 80, rd)
def ident(rec):
    k, name, cl, ttl, rd = rec
    return (k, name.lower(), cl & 0x7fff, rd.lower() if isinstance(rd, str) else rd)
def lib_ident(r):
    if isinstance(r, DNSAddress): return ('A', r.key, r.class_, r.address)
    if isinstance(r, DNSPointer): return ('PTR', r.key, r.class_, r.alias_key)
    if isinstance(r, DNSText): return ('TXT', r.key, r.class_, r.text)
    if isinstance(r, DNSService): return ('SRV', r.key, r.class_, r.server_key)

ttls = [0, 1, 120]
base = [('A', 'h.local.', b'\1\1\1\1'), ('A', 'H.local.', b'\1\1\1\2'), ('TXT', 'x._a._tcp.local.', b'\1a'), ('SRV', 'x._a._tcp.local.', 'h.local.'), ('PTR', '_a._tcp.local.', 'x._a._tcp.local.')]
singles = [(k, n, cl, ttl, rd) for (k, n, rd) in base for cl in (IN, FL) for ttl in ttls]
dgrams = [[r] for r in singles]
# same record twice, and two different records
for (k, n, rd) in base[:3]:
    dgrams.append([(k, n, IN, 10, rd), (k, n, IN, 10, rd)])
    dgrams.append([(k, n, IN, 10, rd), (k, n, IN, 100, rd)])
dgrams.append([('A', 'h.local.', FL, 120, b'\1\1\1\1'), ('A', 'h.local.', IN, 0, b'\1\1\1\2')])
steps = [1, 999, 1000, 1001, 10000, 120000]
events_ = [('d', i) for i in range(len(dgrams))] + [('t', s) for s in steps]

class Model:
    def __init__(self): self.recs = {}  # ident -> [created, ttl]
    def datagram(self, recs, now):
        present = {ident(r) for r in recs}
        removes = set()
        for r in recs:
            k, name, cl, ttl, rd = r
            i = ident(r)
            if ttl and k == 'PTR' and ttl < 1125: ttl = 1125
            if ttl > 0:
                self.recs[i] = [now, ttl] if i not in removes or True else None
            elif i in self.recs: removes.add(i)
        # flush
        for r in recs:
            k, name, cl, ttl, rd = r
            if cl & 0x8000:
                for i, v in self.recs.items():
                    if i[0] == k and i[1] == name.lower() and i[2] == cl & 0x7fff and i not in present and now - v[0] > 1000:
                        v[0] = now; v[1] = 1
        for i in removes: self.recs.pop(i, None)
    def purge(self, now):
        for i in [i for i, v in self.recs.items() if v[0] + v[1] * 1000 <= now]: del self.recs[i]

class Rec(RecordUpdateListener):
    def __init__(self, zc): self.zc = zc; self.calls = []
    def async_update_records(self, zc, now, records):
        self.calls.append(('u', [(lib_ident(r.new), r.new.ttl, None if r.old is None else lib_ident(r.old)) for r in records], snapshot(zc)))
    def async_update_records_complete(self): self.calls.append(('c', snapshot(self.zc)))

def snapshot(zc):
    return sorted((lib_ident(r), r.created, r.ttl) for n in zc.cache.names() for r in zc.cache.entries_with_name(n))
def snapshot_values(zc):
    return sorted((lib_ident(r), r.created, r.ttl) for n in zc.cache.names() for r in zc.cache.async_entries_with_name(n).values())

def run(hist):
    loop = VLoop(); loop.net = Net(loop); events._set_running_loop(loop); install(loop)
    try:
        a = AsyncZeroconf(); zc = a.zeroconf; loop.run_ready()
        lis = Rec(zc); zc.async_add_listener(lis, None)
        m = Model(); next_purge = loop.time() + 10
        for kind, arg in hist:
            if kind == 'd':
                out = DNSOutgoing(const._FLAGS_QR_RESPONSE | const._FLAGS_AA)
                for r in dgrams[arg]: out.add_answer_at_time(mk(r), 0)
                now = loop.time() * 1000
                zc.record_manager.async_updates_from_response(DNSIncoming(out.packets()[0], now=now))
                m.datagram(dgrams[arg], now)
            else:
                target = loop.time() + arg / 1000
                while next_purge <= target:
                    loop.advance_to(next_purge); m.purge(next_purge * 1000); next_purge += 10
                    # compare right after purge
                loop.advance_to(target)
            keys = snapshot(zc); vals = snapshot_values(zc)
            exp = sorted((i, v[0], v[1]) for i, v in m.recs.items())
            if keys != exp or vals != exp:
                return (hist, 'keys', keys, 'vals', vals, 'model', exp)
        return None
    finally:
        events._set_running_loop(None)

depth = int(sys.argv[1]); t0 = _t.perf_counter(); n = 0; bad = []
for hist in itertools.product(events_, repeat=depth):
    n += 1
    r = run(hist)
    if r: bad.append(r)
print("histories", n, "bad", len(bad), "%.1fs" % (_t.perf_counter() - t0))
seen = set()
for b in bad:
    sig = tuple((k, (tuple(dgrams[a]) if k == 'd' else a)) for k, a in b[0])
    short = str([(k, dgrams[a] if k == 'd' else a) for k, a in b[0]])
    print(short[:400]); print("   keys ", b[2]); print("   vals ", b[4]); print("   model", b[6])
    if len(seen) > 12: break
    seen.add(sig)
