import asyncio, sys, gc, struct
from asyncio import events
import vloop_proto as vp
from vloop_proto import VLoop, Net, install
from zeroconf import ServiceInfo, DNSIncoming, DNSOutgoing, DNSQuestion, const, Zeroconf
from zeroconf.asyncio import AsyncZeroconf, AsyncServiceBrowser, AsyncServiceInfo
import zeroconf._core as core, zeroconf._engine as eng, zeroconf._utils.asyncio as zua

class VLoop2(VLoop):
    # set the running loop only while handles run, so the driver looks like "another thread"
    def run_ready(self):
        events._set_running_loop(self)
        try: return super().run_ready()
        finally: events._set_running_loop(None)
    def drive(self, coro, limit=30.0):
        task = self.create_task(coro)
        end = self.time() + limit
        self.run_ready()
        while not task.done():
            nt = self.next_timer()
            assert nt is not None and nt <= end, "deadlock/timeout in drive"
            self.advance_to(nt)
        return task.result()
    def call_soon_threadsafe(self, cb, *a, context=None): return self.call_soon(cb, *a)

def run(close_at, mode):
    loop = VLoop2(); loop.net = Net(loop); install(loop)
    drv = lambda aw, lp, timeout: lp.drive(aw)
    core.run_coro_with_timeout = drv; eng.run_coro_with_timeout = drv
    sent_after = []; cb_after = []
    events._set_running_loop(loop)
    a = AsyncZeroconf(); zc = a.zeroconf
    events._set_running_loop(None)
    log = []
    class L:
        def add_service(self, z, t, n): log.append((loop.time(), 'add', n))
        def remove_service(self, z, t, n): log.append((loop.time(), 'rm', n))
        def update_service(self, z, t, n): log.append((loop.time(), 'upd', n))
    info = ServiceInfo("_a._tcp.local.", "x._a._tcp.local.", 80, server="h.local.", addresses=[b"\1\2\3\4"])
    async def setup():
        AsyncServiceBrowser(zc, "_a._tcp.local.", listener=L())
        t = await a.async_register_service(info)
    T0 = loop.time()
    loop.create_task(setup())
    # an incoming QM query + TC query shortly before close
    def inject():
        proto = zc.engine.protocols[0]
        q = DNSOutgoing(const._FLAGS_QR_QUERY); q.add_question(DNSQuestion("_a._tcp.local.", 12, 1))
        proto.datagram_received(q.packets()[0], ("10.0.0.9", 5353))
        q = DNSOutgoing(const._FLAGS_QR_QUERY | const._FLAGS_TC); q.add_question(DNSQuestion("x._a._tcp.local.", 16, 1))
        proto.datagram_received(q.packets()[0], ("10.0.0.8", 5353))
    loop.call_at(T0 + close_at - 0.05, inject)
    loop.advance_to(T0 + close_at)
    if mode == 'async':
        loop.drive(a.async_close())
    else:
        zc.close()
    t_closed = loop.time(); n_sent = len(loop.net.trace); n_cb = len(log)
    loop.advance_to(t_closed + 20000)
    gc.collect()
    return (round(t_closed - T0, 3), len(loop.net.trace) - n_sent, len(log) - n_cb, [str(e.get('exception') or e.get('message')) for e in loop.exceptions],
            [ (round(t-T0,3), [r.ttl for r in DNSIncoming(d).answers()][:1]) for t,h,ad,d in loop.net.trace[-4:]])

for mode in ('async', 'sync'):
    for close_at in (0.06, 0.2, 0.36, 0.5, 1.0, 3.0):
        print(mode, close_at, run(close_at, mode))
