import struct, sys
from zeroconf import DNSOutgoing, DNSIncoming, DNSQuestion, DNSText, DNSPointer, const
from zeroconf._exceptions import NamePartTooLongException
from zeroconf._utils.name import service_type_name
from zeroconf._services.registry import ServiceRegistry
from zeroconf import ServiceInfo
# 1. 64-byte label
for n in (63, 64, 65):
    out = DNSOutgoing(const._FLAGS_QR_QUERY)
    out.add_question(DNSQuestion("a"*n + ".local.", const._TYPE_PTR, const._CLASS_IN))
    try:
        p = out.packets()[0]
        inc = DNSIncoming(p)
        print("label", n, "encoded; decoder valid=", inc.valid, [q.name[:5] for q in inc.questions])
    except NamePartTooLongException:
        print("label", n, "NamePartTooLong")
# 2. recursion
for depth in (100, 400, 600, 1200, 4400):
    hdr = struct.pack(">HHHHHH", 0, 0, 1, 0, 0, 0)
    # chain: question name at offset 12 = pointer to 14, 14 -> 16 ... last -> zero
    # layout: put chain after the question: q at 12: ptr->16; type/class at 14..17?? simpler: chain first then terminating root
    body = b""
    off = 12
    for i in range(depth):
        tgt = off + 2
        body += bytes([0xC0 | (tgt >> 8), tgt & 0xFF]); off += 2
    body += b"\x00"  # root
    data = hdr + body + b"\x00\x0c\x00\x01"
    # the question is read at offset 12, follows the chain forward; after name, offset=14 => type/class read from chain bytes; fine
    try:
        inc = DNSIncoming(data)
        print("chain", depth, "len", len(data), "valid", inc.valid)
    except RecursionError as e:
        print("chain", depth, "len", len(data), "RecursionError")
# 8. name
for nm in ("_._tcp.local.", "x._._tcp.local."):
    for strict in (True, False):
        try:
            print(nm, strict, service_type_name(nm, strict=strict))
        except Exception as e:
            print(nm, strict, type(e).__name__, e)
# 3. registry
r = ServiceRegistry()
i1 = ServiceInfo("_a._tcp.local.", "x._a._tcp.local.", 80, server="h.local.", addresses=[b"\1\2\3\4"])
i2 = ServiceInfo("_b._tcp.local.", "y._b._tcp.local.", 80, server="h2.local.", addresses=[b"\1\2\3\5"])
r.async_add(i1); r.async_add(i2); r.async_remove(i1)
print("types after removing only _a instance:", r.async_get_types(), r.types, r.servers)
