import asyncio, struct
from asyncio import events
from vloop_proto import VLoop, Net, install
from zeroconf import ServiceInfo, DNSOutgoing, DNSIncoming, DNSQuestion, DNSPointer, DNSText, DNSAddress, const
from zeroconf.asyncio import AsyncZeroconf, AsyncServiceBrowser
def mk():
    loop = VLoop(); loop.net = Net(loop); events._set_running_loop(loop); install(loop); return loop
def show(loop, since):
    for t, h, addr, d in loop.net.trace:
        if t >= since:
            inc = DNSIncoming(d)
            print("   ", round(t-1000,3), h, addr, "Q" if inc.is_query() else "R", [(type(r).__name__, r.ttl) for r in inc.answers()])
for dup in (False, True):
    loop = mk()
    a = AsyncZeroconf(); zc = a.zeroconf
    info = ServiceInfo("_a._tcp.local.", "x._a._tcp.local.", 80, server="h.local.", addresses=[b"\1\2\3\4"])
    async def reg():
        t = await a.async_register_service(info); await t
    loop.create_task(reg()); loop.advance_to(loop.time() + 2000)
    proto = zc.engine.protocols[0]
    q = DNSOutgoing(const._FLAGS_QR_QUERY); q.add_question(DNSQuestion("_a._tcp.local.", const._TYPE_PTR, const._CLASS_IN | const._CLASS_UNIQUE))
    t_q = loop.time(); pkt = q.packets()[0]
    proto.datagram_received(pkt, ("10.0.0.9", 5353))
    if dup: proto.datagram_received(pkt, ("10.0.0.9", 5353))
    loop.advance_to(loop.time() + 5)
    print("dup" if dup else "single"); show(loop, t_q)
    events._set_running_loop(None)
