import itertools, struct, collections
from asyncio import events
from vloop_proto import VLoop, Net, install
from proto_codec import strict
from zeroconf import DNSOutgoing, DNSIncoming, DNSQuestion, DNSPointer, ServiceInfo, const, DNSQuestionType
from zeroconf.asyncio import AsyncZeroconf, AsyncServiceBrowser
import zeroconf._services.browser as zb
T = "_a._tcp.local."
class FR:
    @staticmethod
    def randint(a, b): return a
def run(n_recs, ages_ms, heard_gap, heard_ka, forced):
    """cache holds n records learned so that at the 2nd start-up query (T0+1.02s) record i has age ages[i].
       another host's QM query for T is heard (only matters if we are a responder) heard_gap ms before our 2nd query."""
    loop = VLoop(); loop.net = Net(loop); events._set_running_loop(loop); install(loop); zb.random = FR
    try:
        a = AsyncZeroconf(); zc = a.zeroconf; loop.run_ready()
        # be an authoritative responder for T so that heard questions enter the history
        info = ServiceInfo(T, "own." + T, 80, server="own.local.", addresses=[b"\1\1\1\9"[:4]])
        async def reg():
            tk = await zc.async_register_service(info, cooperating_responders=True); await tk
        loop.create_task(reg()); loop.advance_to(loop.time() + 5000)   # own records aged
        proto = zc.engine.protocols[0]
        t_start = loop.time() + 10000
        t_q2 = t_start + 1.02   # second start-up query instant (QM)
        ttl = 4500
        recs = []
        for i in range(n_recs):
            alias = "r%03d.%s" % (i, T)
            age = ages_ms[i % len(ages_ms)]
            def deliver(alias=alias):
                o = DNSOutgoing(const._FLAGS_QR_RESPONSE | const._FLAGS_AA); o.add_answer_at_time(DNSPointer(T, 12, 1, ttl, alias), 0)
                zc.record_manager.async_updates_from_response(DNSIncoming(o.packets()[0], now=loop.time() * 1000))
            loop.call_at(t_q2 - age / 1000, deliver); recs.append((alias, age))
        log = []
        class L:
            def add_service(self, *a): pass
            def remove_service(self, *a): pass
            def update_service(self, *a): pass
        loop.call_at(t_start, lambda: AsyncServiceBrowser(zc, T, listener=L(), question_type=forced))
        if heard_gap is not None:
            def heard():
                o = DNSOutgoing(const._FLAGS_QR_QUERY); o.add_question(DNSQuestion(T, 12, 1))
                for alias, age in recs[:heard_ka]: o.add_answer_at_time(DNSPointer(T, 12, 1, ttl, alias), 0)
                for p in o.packets(): proto.datagram_received(p, ("10.0.0.9", 5353))
            loop.call_at(t_q2 - heard_gap / 1000, heard)
        loop.advance_to(t_start - 0.001); mark = len(loop.net.trace)
        loop.advance_to(t_start + 1.5)
        qs = []
        for ts, h, ad, d in loop.net.trace[mark:]:
            idd, fl, q, secs = strict(d)
            if fl & 0x8000: continue
            qs.append((round((ts - t_start) * 1000), [(x[0], x[1], bool(x[2] & 0x8000)) for x in q], bool(fl & 0x200), sorted((x[4], x[3]) for x in secs[0])))
        return qs, recs
    finally:
        events._set_running_loop(None)
half = 2250000
# 1) known-answer selection around half TTL at the 2nd query
for ages in ([half - 1, half, half + 1, 1000],):
    qs, recs = run(4, ages, None, 0, None)
    for q in qs: print(q[0], q[1], 'TC' if q[2] else '', [(k[0][:5], k[1]) for k in q[3]])
# 2) suppression by a heard question: gap around 999 ms, known-answer subset/superset
for gap in (998, 999, 1000, 1001):
    for hk in (0, 1, 2):
        qs, recs = run(2, [1000, 2000], gap, hk, None)
        second = [q for q in qs if q[0] >= 1000]
        print("heard gap", gap, "heard_ka", hk, "-> 2nd query sent:", bool(second), [len(q[3]) for q in second])
# 3) forced types
for forced in (None, DNSQuestionType.QU, DNSQuestionType.QM):
    qs, recs = run(1, [1000], None, 0, forced)
    print("forced", forced, [(q[0], q[1][0][2]) for q in qs])
# 4) many known answers -> TC split
qs, recs = run(300, [1000], None, 0, None)
print("300 records:", [(q[0], len(q[1]), q[2], len(q[3])) for q in qs], "total known answers in 2nd query", sum(len(q[3]) for q in qs if q[0] >= 1000))
