from asyncio import events
from vloop_proto import VLoop, Net, install
from zeroconf import DNSOutgoing, DNSIncoming, DNSPointer, DNSText, DNSService, DNSAddress, const
from zeroconf.asyncio import AsyncZeroconf, AsyncServiceInfo
T = "_a._tcp.local."; N = "x._a._tcp.local."
def run(order, t_arr=50, timeout=3000):
    loop = VLoop(); loop.net = Net(loop); events._set_running_loop(loop); install(loop)
    try:
        a = AsyncZeroconf(); zc = a.zeroconf; loop.run_ready(); loop.advance_to(loop.time() + 1)
        proto = zc.engine.protocols[0]
        recs = {'A': DNSAddress("h.local.", 1, 0x8001, 120, b"\1\1\1\1"), 'SRV': DNSService(N, 33, 0x8001, 120, 0, 0, 80, "h.local."), 'TXT': DNSText(N, 16, 0x8001, 4500, b"\1a")}
        def deliver():
            out = DNSOutgoing(const._FLAGS_QR_RESPONSE | const._FLAGS_AA)
            for k in order: out.add_answer_at_time(recs[k], 0)
            proto.datagram_received(out.packets()[0], ("10.0.0.9", 5353))
        res = []
        info = AsyncServiceInfo(T, N)
        async def look():
            ok = await info.async_request(zc, timeout); res.append((ok, round((loop.time() - t0) * 1000), info.server, info.port, info.addresses))
        t0 = loop.time(); mark = len(loop.net.trace)
        loop.create_task(look()); loop.call_at(t0 + t_arr / 1000, deliver)
        loop.advance_to(t0 + 12)
        q = [(round((ts - t0) * 1000), [(x.name, x.type, x.unicast) for x in DNSIncoming(d).questions], len(DNSIncoming(d).answers())) for ts, h, ad, d in loop.net.trace[mark:]]
        return res, q
    finally:
        events._set_running_loop(None)
for order in (['SRV', 'TXT', 'A'], ['A', 'SRV', 'TXT'], ['TXT', 'A', 'SRV']):
    print(order, *run(order))
