import asyncio, sys, time as _time, socket, heapq, collections
from asyncio import events
import vloop_proto as vp
from vloop_proto import VLoop, FakeTransport, FakeSock, install
from zeroconf import ServiceInfo, DNSIncoming, const
from zeroconf.asyncio import AsyncZeroconf, AsyncServiceBrowser, AsyncServiceInfo
import zeroconf._listener as zl, zeroconf._handlers.multicast_outgoing_queue as moq, zeroconf._services.info as zi, zeroconf._services.browser as zb

class Chooser:
    def __init__(self, prefix): self.prefix = prefix; self.log = []
    def choose(self, n, label):
        i = len(self.log)
        c = self.prefix[i] if i < len(self.prefix) else 0
        assert c < n, (i, c, n, label)
        self.log.append((n, label, c)); return c

class FakeRandom:
    def __init__(self, ch): self.ch = ch
    def randint(self, a, b): return (a, b)[self.ch.choose(2, f"rand{a}-{b}")]

class Net:
    def __init__(self, loop, ch): self.loop = loop; self.ch = ch; self.transports = []; self.trace = []; self.dropped = False
    def attach(self, tr): self.transports.append(tr)
    def sent(self, tr, data, addr):
        self.trace.append((self.loop.time(), tr.sock.host, addr, data))
        dst = addr[0]
        for other in self.transports:
            if other.closed: continue
            if dst == '224.0.0.251' or other.sock.host == dst:
                if other is tr:
                    self.loop.call_at(self.loop.time() + 0.001, self._deliver, other, data, (tr.sock.host, 5353)); continue
                # 0: 1ms, 1: 100ms, 2: dup(1ms + 50ms), 3: drop
                c = self.ch.choose(4 if not self.dropped else 3, "net")
                if c == 3: self.dropped = True; continue
                d = 0.1 if c == 1 else 0.001
                self.loop.call_at(self.loop.time() + d, self._deliver, other, data, (tr.sock.host, 5353))
                if c == 2: self.loop.call_at(self.loop.time() + 0.05, self._deliver, other, data, (tr.sock.host, 5353))
    def _deliver(self, other, data, src):
        if not other.closed: other.protocol.datagram_received(data, src)

def run(prefix, browse_at):
    ch = Chooser(prefix)
    loop = VLoop(); loop.net = Net(loop, ch); events._set_running_loop(loop); install(loop)
    fr = FakeRandom(ch); zl.random = fr; zb.random = fr; moq.RAND_INT = fr.randint; zi.randint = fr.randint
    try:
        a = AsyncZeroconf(); b = AsyncZeroconf()
        log = []; infos = []
        class L:
            def add_service(self, zc, t, n):
                log.append((loop.time(), 'add', n))
                async def look():
                    i = AsyncServiceInfo(t, n); ok = await i.async_request(zc, 3000); infos.append((ok, i.port, i.server, i.text, i.addresses))
                loop.create_task(look())
            def remove_service(self, zc, t, n): log.append((loop.time(), 'rm', n))
            def update_service(self, zc, t, n): pass
        info = ServiceInfo("_http._tcp.local.", "Foo._http._tcp.local.", 80, properties={'a': 'b'}, server="foo.local.", addresses=[b"\x0a\x00\x00\x01"])
        async def reg():
            t = await a.async_register_service(info); await t
        async def unreg():
            t = await a.async_unregister_service(info); await t
        T0 = loop.time()
        def start_browser(): AsyncServiceBrowser(b.zeroconf, "_http._tcp.local.", listener=L())
        loop.call_at(T0 + browse_at, start_browser)
        loop.call_at(T0 + 1.0, lambda: loop.create_task(reg()))
        loop.advance_to(T0 + 30)
        live_mid = [e for e in log]
        loop.create_task(unreg())
        loop.advance_to(T0 + 60)
        import gc; gc.collect()
        adds = [e for e in log if e[1] == 'add']; rms = [e for e in log if e[1] == 'rm']
        ok = len(adds) >= 1 and len(adds) == len(rms) and all(i[0] and i[1] == 80 for i in infos) and len(infos) == len(adds) and not loop.exceptions
        return ch.log, ok, (log, infos, loop.exceptions)
    finally:
        events._set_running_loop(None)

def explore(bound, browse_at):
    n = 0; bad = []
    stack = [[]]
    while stack:
        prefix = stack.pop()
        clog, ok, obs = run(prefix, browse_at); n += 1
        if not ok: bad.append((prefix, obs))
        devs = sum(1 for c in prefix if c)
        if devs >= bound: continue
        for i in range(len(prefix), len(clog)):
            nopt = clog[i][0]
            for alt in range(1, nopt):
                stack.append([c for (_, _, c) in clog[:i]] + [alt])
    return n, bad

for browse_at in (0.0, 1.2, 5.0):
    t = _time.perf_counter()
    n, bad = explore(int(sys.argv[1]), browse_at)
    print(f"browse_at={browse_at} bound={sys.argv[1]} executions={n} bad={len(bad)} {(_time.perf_counter()-t):.1f}s")
    for p, obs in bad[:4]:
        print("  prefix", p, "->", [(round(t-1000,3), k) for t,k,_ in obs[0]], obs[1], obs[2][:1])
