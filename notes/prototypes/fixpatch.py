"""Runtime emulation of the planned C05 fix, for prototypes only."""
from zeroconf._cache import DNSCache
from zeroconf._dns import DNSNsec, DNSService
def _async_add(self, record):
    store = self.cache.setdefault(record.key, {})
    new = record not in store and not isinstance(record, DNSNsec)
    store.pop(record, None)
    store[record] = record
    if isinstance(record, DNSService):
        s = self.service_cache.setdefault(record.server_key, {})
        s.pop(record, None)
        s[record] = record
    return new
DNSCache._async_add = _async_add
