import itertools, sys
from asyncio import events
from vloop_proto import VLoop, Net, install
from zeroconf import DNSOutgoing, DNSIncoming, DNSQuestion, DNSPointer, ServiceInfo, const
from zeroconf.asyncio import AsyncZeroconf
import zeroconf, zeroconf._handlers.multicast_outgoing_queue as moq, zeroconf._listener as zl
print("using", zeroconf.__file__)
T = "_a._tcp.local."; N = "x._a._tcp.local."; N2 = "y._a._tcp.local."
def Q(flags=0, qs=(), mc=True, id_=0):
    o = DNSOutgoing(const._FLAGS_QR_QUERY | flags, multicast=mc, id_=id_)
    for q in qs: o.add_question(DNSQuestion(*q))
    return o.packets()[0]
kinds = {'qm_ptr': (Q(qs=[(T, 12, 1)]), 5353), 'qm_multi': (Q(qs=[(T, 12, 1), (N, 33, 1)]), 5353), 'qm_srv': (Q(qs=[(N, 33, 1)]), 5353), 'qm_a': (Q(qs=[("h.local.", 1, 1)]), 5353),
         'qu_ptr': (Q(qs=[(T, 12, 0x8001)]), 5353), 'legacy': (Q(qs=[(T, 12, 1)], mc=False, id_=5), 1234), 'tc': (Q(flags=const._FLAGS_TC, qs=[(T, 12, 1)]), 5353)}
def run(kind, d, jit, shape, fresh, second):
    loop = VLoop(); loop.net = Net(loop); events._set_running_loop(loop); install(loop)
    moq.RAND_INT = lambda a, b: (a, b)[jit]
    class FR:
        @staticmethod
        def randint(a, b): return (a, b)[jit]
    zl.random = FR
    try:
        a = AsyncZeroconf(); zc = a.zeroconf; loop.run_ready()
        info = ServiceInfo(T, N, 80, server="h.local.", addresses=[b"\1\1\1\1"])
        other = None
        if shape == 'shared': other = ServiceInfo(T, N2, 81, server="h.local.", addresses=[b"\1\1\1\1"])
        if shape == 'separate': other = ServiceInfo(T, N2, 81, server="h2.local.", addresses=[b"\1\1\1\2"])
        async def reg():
            for i in (info, other):
                if i is not None:
                    tk = await zc.async_register_service(i, cooperating_responders=True); await tk
        loop.create_task(reg()); loop.advance_to(loop.time() + (0.5 if fresh else 40))
        proto = zc.engine.protocols[0]
        tu = loop.time() + 2.0
        pkt, port = kinds[kind]
        loop.call_at(tu - d / 1000, proto.datagram_received, pkt, ("10.0.0.9", port))
        if second: loop.call_at(tu - d / 1000 + second / 1000, proto.datagram_received, kinds['qm_ptr'][0] + b"\0", ("10.0.0.7", 5353))
        async def unreg():
            tk = await zc.async_unregister_service(info); await tk
        loop.call_at(tu, lambda: loop.create_task(unreg()))
        mark = len(loop.net.trace)
        loop.advance_to(tu + 5)
        byes = []; late = []
        mine = {('PTR', N), ('SRV', N), ('TXT', N)} | ({('A', 'h.local.'), ('NSEC', N)} if shape != 'shared' else set())
        def key(r):
            k = type(r).__name__[3:].upper()
            k = {'POINTER': 'PTR', 'SERVICE': 'SRV', 'TEXT': 'TXT', 'ADDRESS': 'A', 'NSEC': 'NSEC'}[k]
            return (k, r.alias if k == 'PTR' else r.name)
        for ts, h, ad, dd in loop.net.trace[mark:]:
            inc = DNSIncoming(dd)
            if inc.is_query(): continue
            recs = inc.answers()
            z = {key(r) for r in recs if r.ttl == 0}
            if z and ts >= tu - 1e-9: byes.append((ts, z))
        problems = []
        if len(byes) != 3 or any(b[1] != mine for b in byes): problems.append(('goodbyes', [(round(b[0] - tu, 3), sorted(b[1])) for b in byes]))
        if byes:
            last = byes[-1][0]
            for ts, h, ad, dd in loop.net.trace[mark:]:
                if ts > last + 1e-9:
                    for r in DNSIncoming(dd).answers():
                        if r.ttl > 0 and key(r) in mine and not DNSIncoming(dd).is_query(): problems.append(('resurrect', round(ts - tu, 3), key(r), r.ttl))
        return problems
    finally:
        events._set_running_loop(None)
n = bad = 0; cls = {}
for kind in kinds:
    for d in (1, 19, 21, 119, 121, 250, 251, 499, 501, 999, 1001, 1199):
        for jit in (0, 1):
            for shape in ('single', 'shared', 'separate'):
                for fresh in (False, True):
                    for second in (0, 30, 300):
                        n += 1; p = run(kind, d, jit, shape, fresh, second)
                        if p:
                            bad += 1; cls.setdefault((kind, shape, fresh, p[0][0]), []).append((d, jit, second, p[:2]))
print("executions", n, "bad", bad)
for k, v in sorted(cls.items()): print(k, len(v), v[0])
