import itertools, sys
from asyncio import events
from vloop_proto import VLoop, Net, install
from zeroconf import DNSOutgoing, DNSIncoming, DNSQuestion, DNSPointer, ServiceInfo, const
from zeroconf.asyncio import AsyncZeroconf
import zeroconf._handlers.multicast_outgoing_queue as moq
types = ["_a._tcp.local.", "_b._tcp.local."]
def run(age, gap2, draws):
    loop = VLoop(); loop.net = Net(loop); events._set_running_loop(loop); install(loop)
    dr = list(draws); used = []
    def ri(a, b):
        v = dr.pop(0) if dr else a; used.append(v); return v
    moq.RAND_INT = ri
    try:
        a = AsyncZeroconf(); zc = a.zeroconf; loop.run_ready()
        infos = [ServiceInfo(t, "x." + t, 80, server="h%d.local." % i, addresses=[bytes([1,1,1,i+1])]) for i, t in enumerate(types)]
        async def reg():
            for i in infos:
                tk = await zc.async_register_service(i, cooperating_responders=True)
            await tk
        loop.create_task(reg()); loop.advance_to(loop.time() + 0.46)   # last announcement at +0.45, loopback sighting at +0.451
        sight = {}
        for t in types:
            r = zc.cache.get(DNSPointer(t, 12, 1, 0, "x." + t)); sight[t] = r.created
        t_s = max(sight.values())
        proto = zc.engine.protocols[0]; arrivals = []
        def inj(i):
            q = DNSOutgoing(const._FLAGS_QR_QUERY); q.add_question(DNSQuestion(types[i], 12, 1))
            arrivals.append((loop.time()*1000, i)); proto.datagram_received(q.packets()[0], ("10.0.0.9", 5353))
        loop.call_at((t_s + age) / 1000, inj, 0)
        loop.call_at((t_s + age + gap2) / 1000, inj, 1)
        mark = len(loop.net.trace)
        loop.advance_to(loop.time() + 5)
        sends = {}
        for ts, h, addr, d in loop.net.trace[mark:]:
            inc = DNSIncoming(d)
            for r in inc.answers()[:inc.num_answers]:
                if isinstance(r, DNSPointer) and r.ttl: sends.setdefault(r.name, []).append(round(ts * 1000))
        res = []
        for (ta, i) in arrivals:
            s = sends.get(types[i], []); sg = sight[types[i]]
            prot = ta - sg < 1000
            if prot: ok = len(s) == 1 and s[0] >= sg + 1000 and s[0] <= ta + 1200
            else: ok = len(s) == 1 and s[0] <= ta + 500
            res.append((i, 'age', ta - sg, 'prot' if prot else 'norm', [x - ta for x in s], ok))
        return res, used
    finally:
        events._set_running_loop(None)
bad = n = 0
for age in [1, 500, 998, 999, 1000, 1001]:
    for gap2 in [0, 1, 50, 199, 200, 201, 500]:
        for draws in itertools.product([20, 120], repeat=2):
            n += 1; res, used = run(age, gap2, draws)
            if not all(r[-1] for r in res):
                bad += 1
                if bad < 10: print(age, gap2, draws, res, used)
print(n, bad)
