import itertools, collections
from asyncio import events
from vloop_proto import VLoop, Net, install
from proto_codec import strict
from zeroconf import DNSOutgoing, DNSIncoming, DNSText, DNSService, DNSAddress, const, DNSQuestionType
from zeroconf.asyncio import AsyncZeroconf, AsyncServiceInfo
import zeroconf._services.info as zi
T = "_a._tcp.local."; N = "x._a._tcp.local."; H = "h.local."
TTL = {'SRV': 120, 'TXT': 4500, 'A': 120, 'AAAA': 120}
def rec(k, ttl=None):
    ttl = TTL[k] if ttl is None else ttl
    return {'SRV': DNSService(N, 33, 0x8001, ttl, 1, 2, 80, H), 'TXT': DNSText(N, 16, 0x8001, ttl, b"\x03a=b"), 'A': DNSAddress(H, 1, 0x8001, ttl, b"\1\1\1\1"), 'AAAA': DNSAddress(H, 28, 0x8001, ttl, b"\xfe\x80" + b"\0" * 13 + b"\1")}[k]
def run(state, timeout, arrivals, forced=None):
    """state: dict kind -> 'absent'|'fresh'|'stale'|'expired'; arrivals: dict kind -> ms after start or None"""
    loop = VLoop(); loop.net = Net(loop); events._set_running_loop(loop); install(loop)
    zi.randint = lambda a, b: a
    try:
        a = AsyncZeroconf(); zc = a.zeroconf; loop.run_ready(); loop.advance_to(loop.time() + 1)
        def deliver(k):
            o = DNSOutgoing(const._FLAGS_QR_RESPONSE | const._FLAGS_AA); o.add_answer_at_time(rec(k), 0)
            zc.record_manager.async_updates_from_response(DNSIncoming(o.packets()[0], now=loop.time() * 1000))
        # purge timer fires every 10 s from start (+0, +10...). choose t0 right after a purge so expired stay unpurged
        t0 = loop.time() + 9.5 + 200    # purge ran 0.5s before t0 (at multiples of 10 s)
        # align: make t0 - 0.5 a multiple of 10 from loop start 1000.0
        t0 = 1000.0 + 10 * int((t0 - 1000.0) / 10) + 0.5
        for k, st in state.items():
            if st == 'absent': continue
            age = {'fresh': 0.1, 'stale': TTL[k] * 0.5 + 0.001, 'expired': TTL[k] + 0.2}[st]
            loop.call_at(t0 - age, deliver, k)
        res = []
        info = AsyncServiceInfo(T, N)
        async def look():
            ok = await info.async_request(zc, timeout, forced); res.append((ok, round((loop.time() - t0) * 1000)))
        loop.advance_to(t0 - 0.0001); mark = len(loop.net.trace)
        loop.call_at(t0, lambda: loop.create_task(look()))
        for k, t in arrivals.items():
            if t is not None: loop.call_at(t0 + t / 1000, deliver, k)
        loop.advance_to(t0 + timeout / 1000 + 5)
        qs = []
        for ts, h, ad, d in loop.net.trace[mark:]:
            idd, fl, q, secs = strict(d)
            qs.append((round((ts - t0) * 1000), [(x[1], bool(x[2] & 0x8000)) for x in q], [(x[1], x[3]) for x in secs[0]]))
        return res[0] if res else None, qs, (info.server, info.port, info.text, info.addresses_by_version(__import__('zeroconf').IPVersion.All))
    finally:
        events._set_running_loop(None)
stat = collections.Counter(); shown = 0
states = ['absent', 'fresh', 'stale', 'expired']
for combo in itertools.product(states, repeat=4):
    st = dict(zip(('SRV', 'TXT', 'A', 'AAAA'), combo))
    for timeout in (200, 3000):
        for arr in (None, 50, timeout - 1, timeout, timeout + 1):
            arrivals = {k: (arr if st[k] in ('absent', 'expired') else None) for k in st}
            # stagger: SRV first then A in a later datagram
            if arr is not None:
                arrivals = {k: (None if v is None else v) for k, v in arrivals.items()}
            r, qs, fields = run(st, timeout, arrivals)
            usable = lambda k: st[k] in ('fresh', 'stale')
            cache_ok = usable('SRV') and (usable('A') or usable('AAAA'))
            late_ok = arr is not None and arr < timeout and (usable('SRV') or st['SRV'] in ('absent', 'expired')) and True
            # expected success: SRV known (cache or arrived in time) and an address known (cache or arrived in time)
            srv_known = usable('SRV') or (arr is not None and arr < timeout)
            addr_known = usable('A') or usable('AAAA') or (arr is not None and arr < timeout)
            exp = srv_known and addr_known
            # same-instant arrival order: deliveries scheduled in dict order SRV,TXT,A,AAAA as separate datagrams -> SRV before A: fine
            ok_flag = (r is not None and r[0] == exp and r[1] <= timeout and (not cache_ok or len(qs) == 0))
            if arr == timeout: ok_flag = r is not None and r[1] <= timeout   # boundary: either
            stat[ok_flag] += 1
            if not ok_flag and shown < 10:
                shown += 1; print(st, timeout, arr, r, "exp", exp, qs[:3], fields)
print(stat)
