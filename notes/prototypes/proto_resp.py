import itertools, sys, os
from asyncio import events
from vloop_proto import VLoop, Net, install
from zeroconf import DNSOutgoing, DNSIncoming, DNSQuestion, DNSPointer, DNSText, DNSService, DNSAddress, DNSNsec, ServiceInfo, const
from zeroconf.asyncio import AsyncZeroconf
V4a, V4b, V6a = b"\1\1\1\1", b"\1\1\1\2", b"\xfe\x80" + b"\0"*13 + b"\1"
TEMPL = {
 'S1': dict(type_="_a._tcp.local.", name="s1._a._tcp.local.", port=81, server="h1.local.", addresses=[V4a], properties={'k': 'v'}),
 'S2': dict(type_="_a._tcp.local.", name="s2._a._tcp.local.", port=82, server="h1.local.", addresses=[V6a]),
 'S3': dict(type_="_b._tcp.local.", name="S3._b._tcp.local.", port=83, server="H2.local.", addresses=[V4b, V6a], host_ttl=60, other_ttl=600),
 'S4': dict(type_="_p._sub._a._tcp.local.", name="s1._a._tcp.local.", port=81, server="h1.local.", addresses=[V4a]),
}
ENUM = "_services._dns-sd._udp.local."
def ident(r):
    if isinstance(r, DNSAddress): return ('A' if r.type == 1 else 'AAAA', r.key, r.address, r.ttl)
    if isinstance(r, DNSPointer): return ('PTR', r.key, r.alias_key, r.ttl)
    if isinstance(r, DNSText): return ('TXT', r.key, r.text, r.ttl)
    if isinstance(r, DNSService): return ('SRV', r.key, (r.port, r.server_key), r.ttl)
    if isinstance(r, DNSNsec): return ('NSEC', r.key, tuple(r.rdtypes), r.ttl)
def model(reg, qname, qtype):
    """reg: dict key->template. returns expected answer identity set (no known answers)."""
    out = set(); ql = qname.lower()
    for k, s in reg.items():
        ht, ot = s.get('host_ttl', 120), s.get('other_ttl', 4500)
        v4 = [a for a in s['addresses'] if len(a) == 4]; v6 = [a for a in s['addresses'] if len(a) == 16]
        if qtype == 12 and ql == ENUM: out.add(('PTR', ENUM, s['type_'].lower(), 4500))
        if qtype in (12, 255) and ql == s['type_'].lower() and ql != ENUM: out.add(('PTR', ql, s['name'].lower(), ot))
        if qtype in (33, 255) and ql == s['name'].lower(): out.add(('SRV', ql, (s['port'], s['server'].lower()), ht))
        if qtype in (16, 255) and ql == s['name'].lower(): out.add(('TXT', ql, None, ot))
        if qtype in (1, 28) and ql == s['server'].lower():
            have = v4 if qtype == 1 else v6
            for a in have: out.add(('A' if qtype == 1 else 'AAAA', ql, a, ht))
            if not have:
                missing = tuple(sorted(([1] if not v4 else []) + ([28] if not v6 else [])))
                out.add(('NSEC', s['name'].lower(), missing, ht))
    return out
def run(regkeys):
    loop = VLoop(); loop.net = Net(loop); events._set_running_loop(loop); install(loop)
    try:
        a = AsyncZeroconf(); zc = a.zeroconf; loop.run_ready()
        reg = {}
        async def ops():
            for k in regkeys:
                if k.startswith('-'):
                    info = reg.pop(k[1:])[1]; tk = await zc.async_unregister_service(info); await tk
                else:
                    info = ServiceInfo(**TEMPL[k]); tk = await zc.async_register_service(info, cooperating_responders=True); await tk; reg[k] = (TEMPL[k], info)
        loop.create_task(ops()); loop.advance_to(loop.time() + 20)
        names = {ENUM, "nope.local."}
        for t in TEMPL.values():
            for n in (t['type_'], t['name'], t['server']): names.add(n); names.add(n.upper().replace("LOCAL", "local")); 
        bad = []
        for qn in sorted(names):
            for qt in (12, 1, 28, 33, 16, 255, 47, 99):
                q = DNSOutgoing(const._FLAGS_QR_QUERY); q.add_question(DNSQuestion(qn, qt, 1))
                qa = zc.query_handler.async_response([DNSIncoming(q.packets()[0])], False)
                got = set()
                if qa:
                    for b in (qa.ucast, qa.mcast_now, qa.mcast_aggregate, qa.mcast_aggregate_last_second):
                        for r in b: got.add(ident(r))
                exp = model({k: v[0] for k, v in reg.items()}, qn, qt)
                got2 = {(g[0], g[1], None if g[0] == 'TXT' else g[2], g[3]) for g in got}
                if qt == 255 and qn.lower() in {t['server'].lower() for t in TEMPL.values()}: continue
                if got2 != exp: bad.append((qn, qt, sorted(got2 - exp, key=str), sorted(exp - got2, key=str)))
        return bad
    finally:
        events._set_running_loop(None)
for regkeys in (['S1'], ['S1', 'S2'], ['S1', 'S2', 'S3'], ['S1', 'S4'], ['S1', 'S3', '-S1'], ['S3']):
    bad = run(regkeys)
    print(regkeys, "mismatches", len(bad))
    for b in bad[:6]: print("   ", b)
