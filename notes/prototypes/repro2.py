import asyncio, struct
from asyncio import events
from vloop_proto import VLoop, Net, install
from zeroconf import ServiceInfo, DNSOutgoing, DNSIncoming, DNSQuestion, DNSPointer, DNSText, DNSAddress, const, current_time_millis
from zeroconf.asyncio import AsyncZeroconf, AsyncServiceBrowser

def mk():
    loop = VLoop(); loop.net = Net(loop); events._set_running_loop(loop); install(loop); return loop

# ---- C05: record listed twice in one datagram, then refreshed, purged at original deadline
loop = mk()
a = AsyncZeroconf(); zc = a.zeroconf
loop.advance_to(loop.time() + 1)
def resp(records):
    out = DNSOutgoing(const._FLAGS_QR_RESPONSE | const._FLAGS_AA)
    for r in records: out.add_answer_at_time(r, 0)
    return out.packets()[0]
proto = zc.engine.protocols[0]
txt = lambda ttl: DNSText("x._a._tcp.local.", const._TYPE_TXT, const._CLASS_IN, ttl, b"\x01a")
proto.datagram_received(resp([txt(10), txt(10)]), ("10.0.0.9", 5353))
loop.advance_to(loop.time() + 5)
proto.datagram_received(resp([txt(100)]), ("10.0.0.9", 5353))
e = zc.cache.entries_with_name("x._a._tcp.local.")
g = zc.cache.get(txt(0))
print("C05 keys path ttl", [r.ttl for r in e], "value path ttl", g.ttl, "same object", e[0] is g)
loop.advance_to(loop.time() + 15)
print("C05 after original deadline, still cached?", zc.cache.get(txt(0)))
events._set_running_loop(None)

# ---- C15: legacy unicast query with invalid UTF-8 63-byte label
loop = mk()
a = AsyncZeroconf(); zc = a.zeroconf
info = ServiceInfo("_a._tcp.local.", "x._a._tcp.local.", 80, server="h.local.", addresses=[b"\1\2\3\4"])
async def reg():
    t = await a.async_register_service(info); await t
loop.create_task(reg()); loop.advance_to(loop.time() + 5)
proto = zc.engine.protocols[0]
hdr = struct.pack(">HHHHHH", 7, 0, 2, 0, 0, 0)
q1 = b"\x02_a\x04_tcp\x05local\x00" + struct.pack(">HH", 12, 1)
q2 = bytes([63]) + b"\xff"*63 + b"\x05local\x00" + struct.pack(">HH", 12, 1)
try:
    proto.datagram_received(hdr + q1 + q2, ("10.0.0.9", 1234))
    print("C15 no exception")
except Exception as ex:
    print("C15 escaped:", type(ex).__name__)
events._set_running_loop(None)
