import itertools, sys, os, time as _t
from asyncio import events
from vloop_proto import VLoop, Net, install
from zeroconf import DNSOutgoing, DNSIncoming, DNSPointer, const
from zeroconf.asyncio import AsyncZeroconf, AsyncServiceBrowser
import zeroconf._services.browser as zb
from zeroconf._utils.time import millis_to_seconds
if os.environ.get("FIX"):
    import fixpatch
    from zeroconf._utils.time import current_time_millis
    QS = zb.QueryScheduler
    floor = {}
    _orig_sched = QS._schedule_ptr_query
    def _schedule_ptr_query(self, q):
        _orig_sched(self, q)
        nr = self._next_run
        if nr is None or self._startup_queries_sent < zb.STARTUP_QUERIES or nr.cancelled() or floor.get(id(self)) is None: return
        when = max(millis_to_seconds(q.when_millis), floor[id(self)])
        if when < nr.when():
            nr.cancel(); self._next_run = self._loop.call_at(when, self._process_ready_types)
    QS._schedule_ptr_query = _schedule_ptr_query
    def _process_ready_types(self):
        if self._zc.done: return
        floor[id(self)] = None   # no re-arm while we are running
        now_millis = zb.current_time_millis()
        ready_types = set(); end_time_millis = now_millis + self._clock_resolution_millis; schedule_rescue = []
        while self._query_heap:
            query = self._query_heap[0]
            if query.cancelled: zb.heappop(self._query_heap); continue
            if query.when_millis > end_time_millis: break
            query = zb.heappop(self._query_heap); ready_types.add(query.name); del self._next_scheduled_for_alias[query.alias]; schedule_rescue.append(query)
        for query in schedule_rescue: self.schedule_rescue_query(query, now_millis, zb.RESCUE_RECORD_RETRY_TTL_PERCENTAGE)
        if ready_types: self.async_send_ready_queries(False, now_millis, ready_types)
        next_time_millis = now_millis + self._min_time_between_queries_millis
        # FIX part 1: look at the heap *after* the rescues were pushed
        while self._query_heap and self._query_heap[0].cancelled: zb.heappop(self._query_heap)
        next_scheduled = self._query_heap[0] if self._query_heap else None
        if next_scheduled is not None and next_scheduled.when_millis > next_time_millis: next_when_millis = next_scheduled.when_millis
        else: next_when_millis = next_time_millis
        floor[id(self)] = millis_to_seconds(next_time_millis)
        self._next_run = self._loop.call_at(millis_to_seconds(next_when_millis), self._process_ready_types)
    QS._process_ready_types = _process_ready_types
T = "_a._tcp.local."
X, Y = "x._a._tcp.local.", "y._a._tcp.local."
acts = [('learn', X, 4500), ('learn', X, 1200), ('learn', Y, 1200), ('learn', Y, 4500), ('bye', X, 0), ('bye', Y, 0)]
gaps = [0, 20, 40, 900, 3375, 3400]
def run(hist, delay=10000):
    loop = VLoop(); loop.net = Net(loop); events._set_running_loop(loop); install(loop)
    zb.random.randint  # unpatched real random; fine for prototype? no -> patch
    class FR:
        @staticmethod
        def randint(a, b): return a
    zb.random = FR
    try:
        a = AsyncZeroconf(); zc = a.zeroconf; loop.run_ready()
        log = []
        class L:
            def add_service(self, z, t, n): log.append((loop.time(), 'add', n))
            def remove_service(self, z, t, n): log.append((loop.time(), 'rm', n))
            def update_service(self, z, t, n): pass
        t0 = loop.time()
        AsyncServiceBrowser(zc, T, listener=L(), delay=delay); loop.advance_to(t0 + 20)
        proto = zc.engine.protocols[0]; seq = 0
        life = {}   # alias -> list of [created, ttl, ended_by]
        for (gap, (act, alias, ttl)) in hist:
            loop.advance_to(loop.time() + gap)
            out = DNSOutgoing(const._FLAGS_QR_RESPONSE | const._FLAGS_AA); seq += 1
            out.add_answer_at_time(DNSPointer(T, 12, 1, ttl, alias), 0)
            from zeroconf import DNSText
            out.add_additional_answer(DNSText("u.local.", 16, 1, 1, bytes([seq])))
            now = loop.time()
            proto.datagram_received(out.packets()[0], ("10.0.0.9", 5353)); loop.run_ready()
            cur = life.setdefault(alias, [])
            if cur and cur[-1][2] is None and cur[-1][0] + cur[-1][1] > now: cur[-1][2] = ('refresh' if ttl else 'bye', now)
            if ttl: cur.append([now, ttl, None])
        loop.advance_to(loop.time() + 6000)
        queries = [ts for ts, h, ad, d in loop.net.trace if DNSIncoming(d).is_query()]
        problems = []
        # spacing after startup
        qs = [q for q in queries if q > t0 + 14.2]
        allq = sorted(queries)
        for q1, q2 in zip(allq, allq[1:]):
            if q1 >= t0 + 14 and q2 - q1 < delay / 1000 - 1e-6: problems.append(('spacing', q1 - t0, q2 - t0))
        for alias, ivs in life.items():
            for c, ttl, end in ivs:
                endt = end[1] if end else c + ttl
                for pct in (0.75, 0.85, 0.95):
                    due = c + pct * ttl
                    if due >= endt: continue
                    if due + delay / 1000 >= c + ttl: continue
                    ok = any(due - 1e-6 <= q <= due + delay / 1000 + 1e-6 for q in queries)
                    # a later refresh/bye within the lateness window excuses
                    if not ok and endt <= due + delay / 1000: continue
                    if not ok: problems.append(('noquery', alias, pct, round(due - t0, 1), [round(q - t0, 1) for q in queries if q > t0 + 15]))
        return problems
    finally:
        events._set_running_loop(None)
depth = int(sys.argv[1]); n = 0; bad = []
ev = [(g, a) for g in gaps for a in acts]
t0 = _t.perf_counter()
for hist in itertools.product(ev, repeat=depth):
    n += 1; p = run(hist)
    if p: bad.append((hist, p))
print("histories", n, "bad", len(bad), "%.1fs" % (_t.perf_counter() - t0))
for h, p in bad[:8]: print(h, p[:2])
