"""Prototype for C01/C14: independent strict decoder + boundary sweep of the encoder."""
import struct, itertools, sys, time as _t
from zeroconf import DNSOutgoing, DNSIncoming, DNSQuestion, DNSPointer, DNSText, DNSService, DNSAddress, DNSHinfo, DNSNsec, const
from zeroconf._exceptions import NamePartTooLongException

class Bad(Exception): pass
def rd_name(d, off, limit=None):
    labels = []; hops = 0; end = None; cur = off
    while True:
        if cur >= len(d): raise Bad("eof in name")
        l = d[cur]
        if l == 0:
            cur += 1; break
        if l < 64:
            if cur + 1 + l > len(d): raise Bad("label eof")
            labels.append(d[cur + 1:cur + 1 + l]); cur += 1 + l
        elif l >= 0xC0:
            if cur + 1 >= len(d): raise Bad("ptr eof")
            tgt = ((l & 0x3F) << 8) | d[cur + 1]
            if end is None: end = cur + 2
            if tgt >= cur: raise Bad("forward/self pointer")
            hops += 1
            if hops > 127: raise Bad("hops")
            cur = tgt
        else: raise Bad("label type")
        if len(labels) > 127: raise Bad("labels")
    if end is None: end = cur
    name = ".".join(l.decode('utf-8', 'replace') for l in labels) + "."
    if len(name) > 253: raise Bad("name too long")
    return name, end
def strict(d):
    if len(d) < 12: raise Bad("hdr")
    id_, flags, nq, na, nau, nad = struct.unpack(">HHHHHH", d[:12]); off = 12
    qs = []; secs = [[], [], []]
    for _ in range(nq):
        n, off = rd_name(d, off)
        if off + 4 > len(d): raise Bad("q eof")
        t, c = struct.unpack(">HH", d[off:off + 4]); off += 4; qs.append((n, t, c))
    for si, cnt in enumerate((na, nau, nad)):
        for _ in range(cnt):
            n, off = rd_name(d, off)
            if off + 10 > len(d): raise Bad("rr eof")
            t, c, ttl, rl = struct.unpack(">HHIH", d[off:off + 10]); off += 10
            if off + rl > len(d): raise Bad("rdata eof")
            rdata = d[off:off + rl]; e = off + rl
            if t == 1:
                if rl != 4: raise Bad("A len")
                r = rdata
            elif t == 28:
                if rl != 16: raise Bad("AAAA len")
                r = rdata
            elif t in (12, 5):
                r, e2 = rd_name(d, off)
                if e2 != e: raise Bad("ptr rdlen")
            elif t == 16: r = rdata
            elif t == 33:
                if rl < 7: raise Bad("srv")
                p, w, port = struct.unpack(">HHH", rdata[:6]); tn, e2 = rd_name(d, off + 6)
                if e2 != e: raise Bad("srv rdlen")
                r = (p, w, port, tn)
            elif t == 13:
                o = off; parts = []
                for _i in range(2):
                    if o >= e: raise Bad("hinfo")
                    l = d[o]; parts.append(d[o + 1:o + 1 + l].decode('utf-8', 'replace')); o += 1 + l
                if o != e: raise Bad("hinfo len")
                r = tuple(parts)
            elif t == 47:
                nn, o = rd_name(d, off); types = []
                while o < e:
                    if o + 2 > e: raise Bad("nsec")
                    w, bl = d[o], d[o + 1]
                    if bl < 1 or bl > 32 or o + 2 + bl > e: raise Bad("nsec bl")
                    for i, b in enumerate(d[o + 2:o + 2 + bl]):
                        for bit in range(8):
                            if b & (0x80 >> bit): types.append(w * 256 + i * 8 + bit)
                    o += 2 + bl
                r = (nn, tuple(types))
            else: r = ('raw', rdata)
            secs[si].append((n, t, c, ttl, r)); off = e
    if off != len(d): raise Bad("trailing")
    return id_, flags, qs, secs
def rec_tuple(r, multicast, now=0):
    c = r.class_ | (0x8000 if (r.unique and multicast) else 0)
    if isinstance(r, DNSAddress): rd = r.address
    elif isinstance(r, DNSPointer): rd = r.alias if r.alias.endswith('.') else r.alias + '.'
    elif isinstance(r, DNSText): rd = r.text
    elif isinstance(r, DNSService): rd = (r.priority, r.weight, r.port, r.server)
    elif isinstance(r, DNSHinfo): rd = (r.cpu, r.os)
    elif isinstance(r, DNSNsec): rd = (r.next_name, tuple(r.rdtypes))
    return (r.name, r.type, c, int(r.ttl), rd)
def check(out_factory, entries, multicast):
    """entries: list of (section, obj)."""
    out = out_factory()
    for sec, o in entries:
        if sec == 'q': out.add_question(o)
        elif sec == 'an': out.add_answer_at_time(o, 0)
        elif sec == 'au': out.add_authorative_answer(o)
        else: out.add_additional_answer(o)
    try: pk = out.packets()
    except NamePartTooLongException: return 'rejected'
    got_q = []; got = [[], [], []]
    is_query = out.is_query()
    for i, p in enumerate(pk):
        if len(p) > 8966: return ('oversize', len(p))
        idd, fl, qs, secs = strict(p)
        n_entries = len(qs) + sum(len(x) for x in secs)
        if len(p) > 1460 and n_entries != 1: return ('over1460', len(p), n_entries)
        tc = bool(fl & 0x200)
        if is_query and (tc != (i < len(pk) - 1)): return ('tc', i, tc)
        if not is_query and tc: return ('tc-on-response',)
        got_q += qs
        for k in range(3): got[k] += secs[k]
        inc = DNSIncoming(p)
        if not inc.valid: return ('lib-invalid', i)
        lib = [(q.name, q.type, q.class_ | (0x8000 if q.unique else 0)) for q in inc.questions]
        if lib != qs: return ('lib-q-mismatch',)
        libr = [rec_tuple(r, True) for r in inc.answers()]
        if libr != [x for k in range(3) for x in secs[k]]: return ('lib-r-mismatch', libr, secs)
    exp_q = [(q.name, q.type, q.class_ | (0x8000 if (q.unique and multicast) else 0)) for s, q in entries if s == 'q']
    exp = [[rec_tuple(o, multicast) for s, o in entries if s == sec] for sec in ('an', 'au', 'ad')]
    if got_q != exp_q: return ('q-mismatch', got_q, exp_q)
    if got != exp: return ('r-mismatch', [len(x) for x in got], [len(x) for x in exp])
    return 'ok'

names = ["x._a._tcp.local.", "y.x._a._tcp.local.", "_a._tcp.local.", "h.local.", "X._a._tcp.local.", "Dot.ted._a._tcp.local.", "é._a._tcp.local."]
def recs():
    R = []
    for n in names[:5]:
        R += [DNSPointer("_a._tcp.local.", 12, 1, 4500, n), DNSService(n, 33, 0x8001, 120, 0, 0, 80, "h.local."), DNSText(n, 16, 0x8001, 4500, b"\x03a=b"),
              DNSAddress(n, 1, 0x8001, 120, b"\1\2\3\4"), DNSNsec(n, 47, 0x8001, 120, n, [1, 28])]
    R.append(DNSHinfo("h.local.", 13, 1, 10, "cpu", "os"))
    return R
R = recs()
stat = {}; t0 = _t.perf_counter(); n = 0
for limit in (1460, 8966):
    for (r1, r2) in itertools.product(R[::3], R[::2]):
        for pad in range(limit - 12 - 11 - 140, limit - 12 - 11 + 6):
            for mode in ('resp', 'query'):
                fac = (lambda: DNSOutgoing(const._FLAGS_QR_RESPONSE | const._FLAGS_AA)) if mode == 'resp' else (lambda: DNSOutgoing(const._FLAGS_QR_QUERY))
                first = [('an', DNSText("p.local.", 16, 1, 1, b"z" * pad))]
                if limit == 1460: first = [('q', DNSQuestion("_a._tcp.local.", 12, 1))] + first if mode == 'query' else first
                ent = first + [('an', r1), ('ad', r2)]
                res = check(fac, ent, True); n += 1
                k = res if isinstance(res, str) else res[0]
                stat[k] = stat.get(k, 0) + 1
                if k != 'ok' and stat[k] <= 3: print(limit, pad, mode, type(r1).__name__, r1.name, type(r2).__name__, r2.name, res if len(str(res)) < 300 else str(res)[:300])
print(n, stat, "%.1fs" % (_t.perf_counter() - t0))
