import itertools, re, collections
from zeroconf._utils.name import service_type_name
from zeroconf import BadTypeInNameException
ACCEPT, REJECT, UNSPEC = 'A', 'R', 'U'
def ref(name, strict):
    """Independent reading of the documented rules. Returns (verdict, type-or-None)."""
    if len(name) > 256: return REJECT, None
    has_proto = False
    for proto in ("._tcp.local.", "._udp.local."):
        if name.endswith(proto):
            has_proto = True; rest = name[:-len(proto)]; trailer = proto[1:]
    if not has_proto:
        if strict: return REJECT, None
        if not name.endswith(".local."): return REJECT, None
        rest = name[:-len(".local.")]; trailer = "local."
    # rest = [<instance-or-sub>.]<service>   (with protocol)   |  [<instance>]   (bare .local., non strict)
    if has_proto:
        if "." in rest: inst, svc = rest.rsplit(".", 1)
        else: inst, svc = None, rest
        if svc == "": return REJECT, None
        if not svc.startswith("_"): return REJECT, None
        body = svc[1:]
        if body == "": return REJECT, None             # documented: "at least one letter"
        if strict and len(body) > 15: return REJECT, None
        if "--" in body or body[0] == "-" or body[-1] == "-": return REJECT, None
        if not re.search(r"[A-Za-z]", body): return REJECT, None
        if not re.fullmatch(r"[A-Za-z0-9\-]+" if strict else r"[A-Za-z0-9\-_]+", body): return REJECT, None
        typ = svc + "." + trailer
    else:
        inst = rest if rest != "" else None
        typ = trailer
        if rest == "": inst = None
    if inst is not None:
        unspec = False
        if inst == "" : return REJECT, None           # "must not start with '.'"
        if inst == "_sub" or inst.endswith("._sub"):
            sub = inst[:-len("_sub")].rstrip(".") if inst != "_sub" else ""
            if inst != "_sub": sub = inst[:-len("._sub")]
            if sub == "": return REJECT, None
            inst = sub
        if inst.startswith(".") or inst.endswith(".") or ".." in inst: unspec = True   # empty labels: rules silent
        if len(inst.encode("utf-8")) > 63: return (UNSPEC if unspec else REJECT), None
        if re.search(r"[\x00-\x1f\x7f]", inst): return (UNSPEC if unspec else REJECT), None
        if unspec: return UNSPEC, typ
    return ACCEPT, typ
insts = [None, "a", "A b", "é", "x.y", "a" * 63, "a" * 64, "é" * 31 + "a", "é" * 32, "a\x01", "a\x7f", "", ".", "a.", ".a", "a..b", "_sub", "p._sub", "._sub", "p.q._sub", "a" * 63 + "._sub", "a" * 64 + "._sub", "_sub._sub", "_x"]
svcs = ["_a", "_http", "_a1", "_1", "_1a", "_a-b", "_a--b", "_-a", "_a-", "_", "a", "", "_a_b", "__a", "_" + "a" * 15, "_" + "a" * 16, "_aé", "_a b", "_A", "_-", "_a.b"]
tails = ["._tcp.local.", "._udp.local.", "._tcp.local", "._sctp.local.", ".local.", "._tcp.", "._tcp.LOCAL.", ""]
stat = collections.Counter(); ex = {}
n = 0
for inst in insts:
    for svc in svcs:
        for tail in tails:
            name = (inst + "." if inst is not None else "") + svc + tail
            for strict in (True, False):
                n += 1
                v, typ = ref(name, strict)
                try: got = ('A', service_type_name(name, strict=strict))
                except BadTypeInNameException: got = ('R', None)
                except Exception as e: got = ('X:' + type(e).__name__, None)
                if got[0].startswith('X'): k = 'other-exception ' + got[0]
                elif v == UNSPEC: k = 'unspec'
                elif v != got[0]: k = 'DISAGREE ref=%s lib=%s' % (v, got[0])
                elif v == ACCEPT and typ != got[1]: k = 'DISAGREE type'
                else: k = 'agree'
                stat[k] += 1
                if k not in ('agree', 'unspec') and len(ex.setdefault(k, [])) < 8: ex[k].append((name[:70], strict, typ, got))
print(n, dict(stat))
for k, v in ex.items():
    print(k)
    for e in v: print("    ", e)
