import time, sys, struct
from asyncio import events
from vloop_proto import VLoop, Net, install
from zeroconf import DNSOutgoing, DNSIncoming, DNSQuestion, DNSPointer, DNSText, DNSService, DNSAddress, const
from zeroconf.asyncio import AsyncZeroconf
# codec speed
recs = [DNSPointer("_a._tcp.local.", 12, 1, 4500, "x._a._tcp.local."), DNSService("x._a._tcp.local.", 33, 0x8001, 120, 0, 0, 80, "h.local."), DNSText("x._a._tcp.local.", 16, 0x8001, 4500, b"\x01a")]
t = time.perf_counter(); N = 20000
for i in range(N):
    out = DNSOutgoing(const._FLAGS_QR_RESPONSE | const._FLAGS_AA)
    for r in recs: out.add_answer_at_time(r, 0)
    p = out.packets()
    inc = DNSIncoming(p[0]); inc.answers()
print("codec enc+dec 3 records: %.1f us" % ((time.perf_counter() - t) / N * 1e6))
# world build + k datagrams
pkt = p[0]
t = time.perf_counter(); N = 2000
for i in range(N):
    loop = VLoop(); loop.net = Net(loop); events._set_running_loop(loop); install(loop)
    a = AsyncZeroconf(); loop.run_ready()
    for k in range(5):
        a.zeroconf.record_manager.async_updates_from_response(DNSIncoming(pkt, now=loop.time()*1000))
        loop.advance_to(loop.time() + 3)
    events._set_running_loop(None)
print("world build + 5 datagrams + 15 s: %.1f us" % ((time.perf_counter() - t) / N * 1e6))
# profile call count for decode
cnt = [0]
def prof(frame, ev, arg):
    if ev == 'call': cnt[0] += 1
def chain(depth, nrec):
    hdr = struct.pack(">HHHHHH", 0, 0x8400, 0, nrec, 0, 0)
    body = b""; off = 12
    for i in range(depth):
        tgt = off + 2; body += bytes([0xC0 | (tgt >> 8), tgt & 0xFF]); off += 2
    body += b"\x01a\x00"
    for i in range(nrec):
        body += b"\xc0\x0c" + struct.pack(">HHIH", 16, 1, 10, 0)
    return hdr + body
sys.setrecursionlimit(100000)
for depth, nrec in ((10, 10), (500, 300), (900, 500)):
    d = chain(depth, nrec)
    cnt[0] = 0; sys.setprofile(prof); t = time.perf_counter()
    try:
        inc = DNSIncoming(d); inc.answers(); ok = inc.valid
    except RecursionError: ok = "RecursionError"
    sys.setprofile(None)
    print("chain", depth, "records", nrec, "len", len(d), "calls", cnt[0], ok, "answers", len(inc._answers), "%.1f ms" % ((time.perf_counter()-t)*1e3))
