import itertools, sys, time as _t
from asyncio import events
from vloop_proto import VLoop, Net, install
from zeroconf import DNSOutgoing, DNSIncoming, DNSQuestion, DNSPointer, ServiceInfo, const
from zeroconf.asyncio import AsyncZeroconf
import zeroconf._handlers.multicast_outgoing_queue as moq
types = ["_a._tcp.local.", "_b._tcp.local.", "_c._tcp.local."]
def run(gaps, draws, sight_age):
    loop = VLoop(); loop.net = Net(loop); events._set_running_loop(loop); install(loop)
    dr = list(draws); used = []
    def ri(a, b):
        v = dr.pop(0) if dr else a; used.append(v); return v
    moq.RAND_INT = ri
    try:
        a = AsyncZeroconf(); zc = a.zeroconf; loop.run_ready()
        infos = [ServiceInfo(t, "x." + t, 80, server="h%d.local." % i, addresses=[bytes([1,1,1,i+1])]) for i, t in enumerate(types)]
        async def reg():
            for i in infos:
                tk = await zc.async_register_service(i, cooperating_responders=True); await tk
        loop.create_task(reg()); loop.advance_to(loop.time() + 10)   # announcements done; last sighting of own records ~ 9.2 s ago
        if sight_age is None: loop.advance_to(loop.time() + 3)
        proto = zc.engine.protocols[0]
        t0 = loop.time(); arrivals = []
        t = t0
        for i, g in enumerate(gaps):
            t += g / 1000
            def inj(i=i):
                q = DNSOutgoing(const._FLAGS_QR_QUERY); q.id = i + 1
                q.add_question(DNSQuestion(types[i], 12, 1))
                arrivals.append((loop.time(), i))
                proto.datagram_received(q.packets()[0] + bytes([i]), ("10.0.0.9", 5353))
            loop.call_at(t, inj)
        mark = len(loop.net.trace)
        loop.advance_to(t + 3)
        sends = {}
        for ts, h, addr, d in loop.net.trace[mark:]:
            for r in DNSIncoming(d)._answers if DNSIncoming(d).answers() is not None else []:
                pass
            inc = DNSIncoming(d)
            nq = len(inc.questions)
            for r in inc.answers()[:inc.num_answers]:
                if isinstance(r, DNSPointer): sends.setdefault(r.name, []).append(round((ts) * 1000))
        res = []
        for (ta, i), d in zip(arrivals, used):
            ta = round(ta * 1000)
            s = sends.get(types[i], [])
            ok = len(s) == 1 and ta + d <= s[0] <= ta + 500
            res.append((i, ta - round(t0*1000), d, [x - round(t0*1000) for x in s], ok))
        return res
    finally:
        events._set_running_loop(None)
grid = [0, 1, 19, 21, 100, 119, 121, 380, 400, 499, 500, 501]
bad = 0; n = 0
for g2 in grid:
    for g3 in grid:
        for draws in itertools.product([20, 70, 120], repeat=3):
            n += 1
            res = run([1, g2, g3], draws, None)
            if not all(r[-1] for r in res):
                bad += 1
                if bad <= 12: print("gaps", [1, g2, g3], "draws", draws, res)
print("executions", n, "bad", bad)
