#!/bin/sh
# runs every check of a tier on /repo's working tree; prints one summary line per check
tier=${1:-quick}
cd "$(dirname "$0")" || exit 2
rc=0
for c in C01 C02 C03 C04 C05 C06 C07 C08 C09 C10 C11 C12 C13 C14 C15 C16 C17 C18 C19 C20; do
  out=$(./check $c --tier "$tier" 2>&1); code=$?
  echo "$out" | grep -E "^(C[0-9]+ tier|VIOLATION|HARNESS-ERROR)" | cut -c1-220 | head -4
  [ $code -ne 0 ] && { echo "  -> $c exit $code"; rc=1; }
done
exit $rc
